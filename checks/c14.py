"""C14 - a task's search-space description is consistent with its variables."""
import numpy as np
from hypothesis import strategies as st

from harness import oracles, runner, strategies as hs, tasks
from checks import c13

ID = "C14"
LEVEL = "exploration"
RULE = ("Hypothesis draws variable lists (any mix and order of the seven variable types, 1..5 variables, sizes >= 1 "
        "incl. multi-variables and binary of size 1, distinct names; a permutation variable alone or mixed with "
        "others) and positions (members, out-of-range and fractional vectors of matching dimension, 1 coordinate in "
        "20 NaN: such a coordinate is judged for membership of the corrected value only). Oracle: "
        "dimension = sum of sizes; get_bounds has one (lo,hi) per coordinate equal to the declaration, lo<=hi; "
        "empty/initial/corrected solutions have one coordinate per dimension and are members; correct_solution is "
        "coordinate-wise the owner's rule (checked against a stand-alone variable built from the same declaration); transform_solution has exactly the declared names as keys, in order, each "
        "holding the reference decoding of its slice, and the same position given as a numpy array decodes alike. Non-trivial = >= 2 variables of different types, or a "
        "multi-variable of size 1, or a DiscreteMultiVariable; distinct = SHA-256 of the case.")
ASSUMPTIONS = ["get_bounds law is not applied to 'permutation + other variables' (ragged bounds; not a documented "
               "combination); all other laws are", "transform_solution is applied to members only (its documented use)",
               "per-variable rules themselves (clip, truncation, label order) are C13's business; C14 checks that the task "
               "applies the owning variable's rule to the right coordinate / slice"]
BUDGET = {"quick": 600, "thorough": 10000}


def _f(lo, hi):
    return st.floats(min_value=lo, max_value=hi, allow_nan=False, allow_infinity=False)


@st.composite
def var_list(draw):
    shape = draw(st.sampled_from(["mixed", "mixed", "mixed", "perm_alone", "perm_mixed", "single"]))
    names = ["a", "b", "kernel", "C", "x", "routes", "q7"]
    if shape == "perm_alone":
        return [{"type": "PermutationVariable", "name": "routes", "items": draw(hs.perm_items())}]
    n = 1 if shape == "single" else draw(st.integers(1, 5))
    out = []
    for i in range(n):
        t = draw(st.sampled_from(["ContinuousVariable", "ContinuousMultiVariable", "MultiObjectiveVariable",
                                  "DiscreteVariable", "DiscreteMultiVariable", "BinaryVariable"]))
        name = names[i]
        if t == "ContinuousVariable":
            _, lb, ub = draw(hs.bound_pair())
            out.append({"type": t, "name": name, "lower_bound": lb, "upper_bound": ub})
        elif t in ("ContinuousMultiVariable", "MultiObjectiveVariable"):
            _, lb, ub = draw(hs.bounds_list(1, 4))
            out.append({"type": t, "name": name, "lower_bounds": lb, "upper_bounds": ub})
        elif t == "DiscreteVariable":
            out.append({"type": t, "name": name, "choices": draw(hs.choices_list())})
        elif t == "DiscreteMultiVariable":
            k = draw(st.integers(1, 4))
            out.append({"type": t, "name": name, "choices": [draw(hs.choices_list()) for _ in range(k)]})
        else:
            out.append({"type": t, "name": name, "n_vars": draw(st.integers(1, 5))})
    if shape == "perm_mixed":
        out.insert(draw(st.integers(0, len(out))),
                   {"type": "PermutationVariable", "name": "routes", "items": draw(hs.perm_items())})
    return out


@st.composite
def coord_value(draw, spec):
    k = spec[0]
    if k in ("c", "d") and draw(st.integers(0, 19)) == 0:
        # an undefined coordinate: the owning variable's rule re-draws it inside its domain, so must the task
        return c13.enc(float("nan"))
    if k == "c":
        v, _ = draw(c13.cont_value(spec[1], spec[2]))
        return c13.enc(v)
    if k == "d":
        v, _ = draw(c13.disc_value(spec[1]))
        return c13.enc(v)
    v, _ = draw(c13.perm_value(spec[1]))
    return c13.enc(v)


@st.composite
def case(draw):
    vs = draw(var_list())
    coords = oracles.flat_coords({"variables": vs})
    positions = [[draw(coord_value(c)) for c in coords] for _ in range(draw(st.integers(1, 3)))]
    return {"variables": vs, "positions": positions, "as_array": draw(st.booleans()),
            "rng_seed": draw(st.integers(0, 2 ** 32 - 1))}


# ---------------------------------------------------------------------------------------------------------
def ref_decode(v, sl, standalone=None):
    t = v["type"]
    if t == "ContinuousVariable":
        return sl[0]
    if t in ("ContinuousMultiVariable", "MultiObjectiveVariable"):
        return list(sl)
    if t == "DiscreteVariable":
        return v["choices"][sl[0]]
    if t == "DiscreteMultiVariable":
        return [ch[i] for ch, i in zip(v["choices"], sl)]
    if t == "BinaryVariable":
        return [int(i) for i in sl]
    # the label order is the variable's own business (C13 checks it is a rearrangement of the items):
    # the task must agree with the stand-alone variable's decoding of the identity
    order = standalone.decode(list(range(len(v["items"]))))
    return [order[i] for i in sl[0]]


def _same(a, b):
    if isinstance(b, list):
        return isinstance(a, (list, tuple)) and len(a) == len(b) and all(_same(x, y) for x, y in zip(a, b))
    return a is b or (type(a) is type(b) and a == b) or (isinstance(b, float) and isinstance(a, float) and a == b)


def laws(payload):
    vs = payload["variables"]
    spec = {"variables": vs, "minmax": "min", "weights": None, "seed": None,
            "objective": {"terms": [{"family": "constant", "c": 0.0}], "salt": 0, "style": "direct"}}
    coords = oracles.flat_coords(spec)
    sizes = oracles.var_sizes(spec)
    dim = len(coords)
    out = []
    key = lambda law: f"C14|{law}"  # noqa: E731
    types = [v["type"] for v in vs]
    has_perm = "PermutationVariable" in types
    try:
        task = tasks.build_task(spec)
    except Exception as e:  # noqa: BLE001
        return [(key("task-construction-raises"), f"{type(e).__name__}: {e}"[:300])], True
    if task.space_dimension != dim:
        out.append((key("dimension"), f"space_dimension={task.space_dimension}, sum of sizes={dim}"))
    # bounds: one (lo, hi) per coordinate, equal to the declaring variable's own bounds (stand-alone variable built from
    # the same declaration), lo <= hi
    standalone_b = [tasks.build_variable(v) for v in vs]
    if not (has_perm and len(vs) > 1):
        try:
            lb, ub = task.get_bounds()
            lb, ub = np.asarray(lb, dtype=float), np.asarray(ub, dtype=float)
            exp_lo, exp_hi = [], []
            for sv in standalone_b:
                lo_, hi_ = sv.get_bounds()
                if sv.has_children():
                    exp_lo.extend(float(x) for x in lo_); exp_hi.extend(float(x) for x in hi_)
                else:
                    exp_lo.append(lo_); exp_hi.append(hi_)
            exp_lo, exp_hi = np.asarray(exp_lo, dtype=float), np.asarray(exp_hi, dtype=float)
            if lb.shape != exp_lo.shape or ub.shape != exp_hi.shape:
                out.append((key("bounds-shape"), f"shapes {lb.shape} {ub.shape}, the variables declare {exp_lo.shape}"))
            elif not (np.array_equal(lb, exp_lo) and np.array_equal(ub, exp_hi)):
                j = int(np.argmax((lb != exp_lo) | (ub != exp_hi)))
                out.append((key("bounds"), f"coordinate {j}: task reports ({lb.ravel()[j]!r}, {ub.ravel()[j]!r}), its "
                                           f"variable declares ({exp_lo.ravel()[j]!r}, {exp_hi.ravel()[j]!r})"))
            elif np.any(lb > ub):
                out.append((key("bounds"), "a lower bound lies above its upper bound"))
            else:
                # and the variables' own bounds agree with the declaration
                for j, c in enumerate(coords):
                    if c[0] == "c" and not (lb[j] == c[1] and ub[j] == c[2]):
                        out.append((key("bounds"), f"coordinate {j}: ({lb[j]!r}, {ub[j]!r}) for declaration {c}"))
                        break
        except Exception as e:  # noqa: BLE001
            out.append((key("bounds-raises"), f"get_bounds(): {type(e).__name__}: {e}"[:300]))
    # random solutions
    np.random.seed(payload["rng_seed"])
    for fn in ("empty_solution", "initial_solution"):
        try:
            s = getattr(task, fn)()
            bad = oracles.member(coords, s)
            if bad:
                out.append((key(fn), f"{fn}() -> {s!r}: {bad}"[:300]))
        except Exception as e:  # noqa: BLE001
            out.append((key(fn + "-raises"), f"{type(e).__name__}: {e}"[:300]))
    # the other random-solution entry point: one coordinate per dimension (its values are not judged here)
    try:
        rs = task.random_solution()
        if len(rs) != dim:
            out.append((key("random_solution-length"), f"random_solution() has {len(rs)} coordinates, dimension {dim}"))
    except Exception as e:  # noqa: BLE001
        if not has_perm:            # bandwidth arithmetic on a permutation's nested bounds is not a documented use
            out.append((key("random_solution-raises"), f"{type(e).__name__}: {e}"[:300]))
    # correction and decoding
    standalone = [tasks.build_variable(v) for v in vs]
    flat_standalone = [c for v in standalone for c in (v.get() if v.has_children() else [v])]
    for enc_pos in payload["positions"]:
        x = [c13.dec(e) for e in enc_pos]
        arg = x
        if payload["as_array"] and not has_perm:
            try:
                arg = np.array(x, dtype=float)
            except (TypeError, ValueError):
                arg = x
        try:
            c = task.correct_solution(arg)
            ci = task.initial_solution(arg)
        except Exception as e:  # noqa: BLE001
            out.append((key("correct-raises"), f"correct_solution({x!r}): {type(e).__name__}: {e}"[:300]))
            continue
        # coordinates that were NaN are re-drawn at random: they are judged for membership only
        undefined = [isinstance(e, float) and e != e for e in x]
        if len(c) != len(ci) or not all(u or c13._eq(a, b) for a, b, u in zip(c, ci, undefined)):
            out.append((key("initial-vs-correct"), f"initial_solution(x)={ci!r} != correct_solution(x)={c!r}"[:300]))
        bad = oracles.member(coords, c)
        if bad:
            out.append((key("correct-not-member"), f"correct_solution({x!r}) -> {c!r}: {bad}"[:300]))
            continue
        for j, (cj, xj, sp, own) in enumerate(zip(c, x, coords, flat_standalone)):
            if undefined[j]:
                continue
            exp_lib = own.correct(xj)
            if not c13._eq(cj, exp_lib):
                out.append((key("correct-not-coordinatewise"),
                            f"coordinate {j}: got {cj!r}, owner rule gives {exp_lib!r}"[:300]))
                break
        try:
            d = task.transform_solution(c)
        except Exception as e:  # noqa: BLE001
            out.append((key("transform-raises"), f"transform_solution({c!r}): {type(e).__name__}: {e}"[:300]))
            continue
        if list(d.keys()) != [v["name"] for v in vs]:
            out.append((key("transform-keys"), f"keys {list(d.keys())!r} for names {[v['name'] for v in vs]!r}"))
            continue
        off = 0
        for v, sz, sa in zip(vs, sizes, standalone):
            exp = ref_decode(v, c[off:off + sz], sa)
            if not _same(d[v["name"]], exp):
                out.append((key("transform-value"), f"{v['name']}: got {d[v['name']]!r}, expected {exp!r}"[:300]))
                break
            off += sz
        if payload["as_array"] and (not has_perm or len(vs) == 1):
            # the same member position handed over as a numpy array decodes to the same values
            try:
                arr = np.array(c)
                d2 = task.transform_solution(arr)
                if list(d2.keys()) != list(d.keys()) or not all(c13._eq(d2[k], d[k]) for k in d):
                    out.append((key("transform-array"), f"transform_solution(array{arr.shape}) -> {d2!r}, the list "
                                                        f"position gives {d!r}"[:300]))
            except Exception as e:  # noqa: BLE001
                out.append((key("transform-array-raises"), f"transform_solution(np.array({c!r})): "
                                                           f"{type(e).__name__}: {e}"[:300]))
    nontrivial = (len(set(types)) >= 2 or "DiscreteMultiVariable" in types
                  or any(sz == 1 and v["type"] in ("ContinuousMultiVariable", "MultiObjectiveVariable",
                                                   "DiscreteMultiVariable", "BinaryVariable")
                         for v, sz in zip(vs, sizes)))
    # de-duplicate by key
    seen, uniq = set(), []
    for k, d in out:
        if k not in seen:
            seen.add(k); uniq.append((k, d))
    return uniq, nontrivial


def shards(tier):
    return [{"name": f"part{i}", "n": BUDGET[tier]} for i in range(16)]


def run_shard(shard, tier, seed):
    ctx = runner.Ctx(ID, shard["name"])

    def one(payload):
        vio, nontrivial = laws(payload)
        types = sorted({v["type"] for v in payload["variables"]})
        ctx.case(payload, nontrivial, ["has:" + t for t in types] + [f"nvars:{len(payload['variables'])}"])
        ctx.judge(payload, vio)

    with runner.Reach(ctx, ["models.py"]):
        runner.drive(ctx, case(), one, shard["n"], seed)
    return ctx.to_dict()


def finalize(results, tier, seed, coverage):
    runner.merge_reach(results, coverage)
    return []


def replay(payload):
    return laws(payload)[0]
