"""C15 - the recorded history is faithful and the trend utilities agree with it."""
from hypothesis import strategies as st

from harness import campaign, observe, strategies

from pyvolutionary import utils as U

ID = "C15"
LEVEL = "exploration"
RULE = ("Hypothesis draws RunSpecs (all optimizers, min and max tasks, >= 3 cycles, serial) plus ranks idx in "
        "0..size-1 of the smallest generation and iteration subsets (repeats, empty, out of order, None). Fidelity: "
        "evolution[k] must equal the deep snapshot (position, sign-restored cost, fitness) the harness took right "
        "after cycle k (k=0: when after_initialization is entered). Utilities: for each requested iteration i, "
        "agent_trend / agent_position return the cost / a position of the idx-th agent of evolution[i] ranked in "
        "the task's direction (ties: any agent with that cost), best_agent_trend[-1] == best_solution.cost, lengths "
        "== len(iters). Non-trivial = run in which some agent object survives >= 2 generations (an in-place update "
        "could rewrite the past) or a max task; distinct = SHA-256 of the case. About 15 % of the cases make the judged run on an optimizer instance that has already been used for an optimize() call on another task (reused instance).")
ASSUMPTIONS = ["algorithm-private extra fields of agents (trials, hunger, velocity..) are not part of the result "
               "contract and are not compared", "negative ranks are not a documented use and are not generated",
               "runs that raise are C06's business"]
BUDGET = {"quick": 25, "thorough": 300}


@st.composite
def case(draw, optimizer, tier):
    spec = draw(strategies.run_spec(
        optimizer,
        task=strategies.task_spec(minmax=("min", "max")),
        config=strategies.config_spec(optimizer, max_cycles=(3, 6 if tier == "quick" else 15), min_cycles=3),
        modes=("serial",), warmup=0.15))
    spec["idx_frac"] = draw(st.floats(0, 1, allow_nan=False))
    spec["iters"] = draw(st.one_of(st.none(), st.lists(st.integers(0, 40), max_size=8)))
    return spec


def judge(spec, obs):
    if not obs.ok:
        return [], False, []
    res = obs.result
    name = spec["optimizer"]
    mm = spec["task"]["minmax"]
    sign = 1.0 if mm == "min" else -1.0
    out = []
    # ---- fidelity -----------------------------------------------------------------------------------------
    snaps = [obs.init_snap] + list(obs.snaps)
    if len(snaps) != len(res.evolution):
        out.append((f"C15|{name}|history-length", f"{len(res.evolution)} generations recorded, {len(snaps)} observed"))
    else:
        for k, (gen, snap) in enumerate(zip(res.evolution, snaps)):
            if snap is None:
                continue
            got = [(observe.plain_position(a.position), a.cost, a.fitness) for a in gen.agents]
            exp = [(p, (sign * c) if sign != 1.0 else c, f) for p, c, f in snap]
            if len(got) != len(exp) or any(
                    g[0] != e[0] or not _same(g[1], e[1]) or not _same(g[2], e[2]) for g, e in zip(got, exp)):
                j = next((i for i, (g, e) in enumerate(zip(got, exp))
                          if g[0] != e[0] or not _same(g[1], e[1]) or not _same(g[2], e[2])), -1)
                out.append((f"C15|{name}|history-rewritten",
                            f"generation {k} of the result differs from the population as it stood after cycle {k} "
                            f"(agent {j}: recorded {got[j] if 0 <= j < len(got) else len(got)!r}, "
                            f"was {exp[j] if 0 <= j < len(exp) else len(exp)!r})"[:500]))
                break
    # ---- utilities ----------------------------------------------------------------------------------------
    n_gen = len(res.evolution)
    min_size = min(len(g.agents) for g in res.evolution)
    idx = min(int(spec["idx_frac"] * min_size), min_size - 1)
    iters = spec["iters"]
    if iters is not None:
        iters = [i % n_gen for i in iters]
    want = list(range(n_gen)) if iters is None else iters

    def ranked_costs(i):
        return sorted((a.cost for a in res.evolution[i].agents), reverse=(mm == "max"))

    try:
        tr = U.agent_trend(res, idx, iters)
        ps = U.agent_position(res, idx, iters)
        btr = U.best_agent_trend(res, iters)
        bps = U.best_agent_position(res, iters)
        full = U.best_agent_trend(res)
    except Exception as e:  # noqa: BLE001
        out.append((f"C15|utils|raises", f"{type(e).__name__}: {e}"[:300]))
        tr = None
    if tr is not None:
        for nm, lst in (("agent_trend", tr), ("agent_position", ps), ("best_agent_trend", btr),
                        ("best_agent_position", bps)):
            if len(lst) != len(want):
                out.append((f"C15|utils|{nm}-length", f"{len(lst)} entries for {len(want)} iterations"))
        if not any(k.startswith("C15|utils") for k, _ in out):
            for pos_in_list, i in enumerate(want):
                rc = ranked_costs(i)
                if not _same(tr[pos_in_list], rc[idx]):
                    out.append((f"C15|utils|agent_trend-rank", f"{mm} task, iteration {i}, idx {idx}: got "
                                                                f"{tr[pos_in_list]!r}, ranked costs {rc[:idx + 2]!r}"))
                    break
                if not _same(btr[pos_in_list], rc[0]):
                    out.append((f"C15|utils|best_agent_trend-rank", f"{mm} task, iteration {i}: got "
                                                                     f"{btr[pos_in_list]!r}, best is {rc[0]!r}"))
                    break
                agents = res.evolution[i].agents
                if not any(observe.plain_position(a.position) == observe.plain_position(ps[pos_in_list])
                           and _same(a.cost, rc[idx]) for a in agents):
                    out.append((f"C15|utils|agent_position-rank", f"iteration {i}, idx {idx}: returned position does "
                                                                   f"not belong to an agent of cost {rc[idx]!r}"))
                    break
                if not any(observe.plain_position(a.position) == observe.plain_position(bps[pos_in_list])
                           and _same(a.cost, rc[0]) for a in agents):
                    out.append((f"C15|utils|best_agent_position-rank", f"iteration {i}: returned position does not "
                                                                        f"belong to an agent of cost {rc[0]!r}"))
                    break
            if res.best_solution is not None and not _same(full[-1], res.best_solution.cost):
                out.append((f"C15|utils|best_trend-vs-best_solution", f"{mm} task: best_agent_trend[-1]={full[-1]!r}, "
                                                                       f"best_solution.cost={res.best_solution.cost!r}"))
    # ---- non-trivial ----------------------------------------------------------------------------------------
    ids = [obs.init_identity or []] + list(obs.identity)
    survives = any(set(a) & set(b) for a, b in zip(ids, ids[1:]))
    labels = ["agent_object_survives" if survives else "all_agents_replaced",
              "iters:none" if spec["iters"] is None else "iters:list"]
    return out, (survives or mm == "max"), labels


def _same(a, b):
    return a == b or (a != a and b != b)


def shards(tier):
    return campaign.optimizer_shards(BUDGET[tier])


OKW = {"keep_snaps": True, "snapshots_cfg": False}


def run_shard(shard, tier, seed):
    return campaign.run_shard(ID, shard, seed, case(shard["optimizer"], tier), judge, observe_kwargs=OKW)


def replay(payload):
    return campaign.replay(payload, judge, OKW)
