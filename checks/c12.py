"""C12 - maximising f is exactly minimising -f."""
import copy
import json
import os

from harness import VERIF_ROOT, campaign, observe, registry, runner, strategies

ID = "C12"
LEVEL = "exploration"
with open(os.path.join(VERIF_ROOT, "baselines", "direction_readers.json")) as _fh:
    READERS = json.load(_fh)["readers"]
RULE = ("Domain: every exported optimizer except those whose update rule reads Agent.fitness / Task.minmax "
        "(baselines/direction_readers.json: Ant Lion; run informationally, never judged). Hypothesis draws an objective "
        "f (all families, all encodings incl. weighted multi-objective), bounds, a configuration that stops by cycle "
        "count (fitness_error=None, no early stopping) and a seed; the case runs (max, f) and (min, -f) in serial mode "
        "and compares generation by generation: identical positions, costs exact negatives, same number of "
        "generations (fitness and rates legitimately differ and are not compared). Non-trivial = pair with >= 3 "
        "cycles and >= 2 distinct best costs over the run; distinct = SHA-256 of the spec. About 15 % of the cases make the judged run on an optimizer instance that has already been used for an optimize() call on another task (reused instance).")
ASSUMPTIONS = ["-1*y == -y exactly in IEEE arithmetic, so negated objectives give exactly negated internal costs",
               "a pair in which either run raises is C06's business (both must then raise alike)"]
BUDGET = {"quick": 30, "thorough": 200}


def strategy(optimizer, tier):
    return strategies.run_spec(
        optimizer, task=strategies.task_spec(minmax=("max",), families=strategies.WILD_FAMILIES),
        config=strategies.config_spec(optimizer, max_cycles=(3, 6 if tier == "quick" else 15), stopping=False,
                                      min_cycles=3, perturb=0.5),
        modes=("serial",), warmup=0.15)


def run_pair(spec):
    a = observe.run(spec, keep_snaps=False, snapshots_cfg=False)
    dual = copy.deepcopy(spec)
    dual["task"]["minmax"] = "min"
    dual["task"]["objective"]["negate"] = not spec["task"]["objective"].get("negate", False)
    # the dual run starts from another ambient random state: a seeded run does not depend on it (seed 0 included)
    dual["pre_noise"] = int(spec.get("pre_noise", 0)) + 1
    b = observe.run(dual, keep_snaps=False, snapshots_cfg=False)
    return a, b


def judge_pair(spec, a, b):
    name = spec["optimizer"]
    if "timeout" in (a.outcome, b.outcome):
        return None
    labels = [f"outcomes:{a.outcome}/{b.outcome}"]
    if a.outcome != b.outcome or (a.outcome == "exc" and a.exc_key != b.exc_key):
        return [(f"C12|{name}|outcome-differs", f"max f: {a.outcome} {a.exc_key}, min -f: {b.outcome} {b.exc_key}")], \
            False, labels
    if not a.ok:
        return [], False, labels
    ra, rb = a.result, b.result
    vio = []
    if len(ra.evolution) != len(rb.evolution):
        vio.append((f"C12|{name}|length", f"{len(ra.evolution)} vs {len(rb.evolution)} generations"))
    else:
        for k, (ga, gb) in enumerate(zip(ra.evolution, rb.evolution)):
            if len(ga.agents) != len(gb.agents):
                vio.append((f"C12|{name}|size", f"generation {k}: {len(ga.agents)} vs {len(gb.agents)} agents"))
                break
            bad = None
            for i, (x, y) in enumerate(zip(ga.agents, gb.agents)):
                if observe.plain_position(x.position) != observe.plain_position(y.position):
                    bad = ("positions", i, x.position, y.position)
                elif not (x.cost == -y.cost or (x.cost != x.cost and y.cost != y.cost)):
                    bad = ("costs", i, x.cost, y.cost)
                if bad:
                    break
            if bad:
                vio.append((f"C12|{name}|{bad[0]}", f"generation {k} agent {bad[1]}: max f has {bad[2]!r}, min -f has "
                                                    f"{bad[3]!r}"[:400]))
                break
        bx, by = ra.best_solution, rb.best_solution
        if not vio and (observe.plain_position(bx.position) != observe.plain_position(by.position)
                        or not (bx.cost == -by.cost or (bx.cost != bx.cost and by.cost != by.cost))):
            vio.append((f"C12|{name}|best", f"best_solution: {bx.position!r}/{bx.cost!r} vs {by.position!r}/{by.cost!r}"[:400]))
    bests = {repr(max(x.cost for x in g.agents)) for g in ra.evolution}
    return vio, (len(ra.rates) >= 3 and len(bests) >= 2), labels


def shards(tier):
    return campaign.optimizer_shards(BUDGET[tier])


def run_shard(shard, tier, seed):
    name = shard["optimizer"]
    informational = name in READERS
    ctx = runner.Ctx(ID, shard["name"])

    def case(spec):
        a, b = run_pair(spec)
        r = judge_pair(spec, a, b)
        if r is None:
            ctx.inconclusive += 1
            return
        vio, nt, labels = r
        if informational:
            ctx.case(spec, False, ["informational:" + name + (":differs" if vio else ":same")])
            return
        ctx.case(spec, nt, labels)
        ctx.judge(spec, vio)

    runner.drive(ctx, strategy(name, tier), case, shard["n"], seed)
    return ctx.to_dict()


def replay(payload):
    if payload["optimizer"] in READERS:
        return []
    a, b = run_pair(payload)
    r = judge_pair(payload, a, b)
    return [] if r is None else r[0]
