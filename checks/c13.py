"""C13 - variable types obey their domain laws."""
import math

import numpy as np
from hypothesis import strategies as st
from pydantic import ValidationError

from harness import oracles, runner, strategies as hs, tasks

ID = "C13"
LEVEL = "exploration"
RULE = ("Hypothesis draws (variable definition, candidate value) pairs per variable type: definitions from all bound "
        "classes up to |b|<=1e300 / choice lists of mixed types / item lists; candidates = members, boundary, "
        "1-ulp outside, far outside, +-1e308, +-inf, fractional, -0.0, Python ints, numpy float64/float32/int64 scalars, "
        "ties and near-ties for permutations. Laws: randomize in domain; correct(v) in domain; correct(member) == "
        "member; correct idempotent; decode(correct(v)) is a declared choice / consistent rearrangement; multi-"
        "variables = child law coordinate-wise; invalid definitions raise ValidationError. Non-trivial = correct "
        "had to change the value, or the value is a boundary / tie; distinct = SHA-256 of (definition, value).")
ASSUMPTIONS = ["NaN inputs are outside the law's domain", "domain membership predicate: harness/oracles.py:member",
               "candidate values stay within the float64 range (no Python ints beyond it)"]
BUDGET = {"quick": 4000, "thorough": 60000}
TYPES = ("ContinuousVariable", "ContinuousMultiVariable", "MultiObjectiveVariable", "DiscreteVariable",
         "DiscreteMultiVariable", "BinaryVariable", "PermutationVariable", "invalid")


# ---------------------------------------------------------------------------------------------------------
# tagged JSON encoding of candidate values (numpy scalars / arrays / tuples / inf survive a replay file)
# ---------------------------------------------------------------------------------------------------------
def enc(v):
    if isinstance(v, np.ndarray):
        return {"__nd__": str(v.dtype), "v": [enc(e) for e in v.tolist()]}
    if isinstance(v, np.generic):
        return {"__np__": type(v).__name__, "v": enc(v.item())}
    if isinstance(v, tuple):
        return {"__tuple__": [enc(e) for e in v]}
    if isinstance(v, list):
        return [enc(e) for e in v]
    if isinstance(v, float) and not math.isfinite(v):
        return {"__float__": repr(v)}
    return v


def dec(v):
    if isinstance(v, dict):
        if "__nd__" in v:
            return np.array([dec(e) for e in v["v"]], dtype=v["__nd__"])
        if "__np__" in v:
            return getattr(np, v["__np__"])(dec(v["v"]))
        if "__tuple__" in v:
            return tuple(dec(e) for e in v["__tuple__"])
        if "__float__" in v:
            return float(v["__float__"])
    if isinstance(v, list):
        return [dec(e) for e in v]
    return v


# ---------------------------------------------------------------------------------------------------------
# generators
# ---------------------------------------------------------------------------------------------------------
def _f(lo, hi):
    return st.floats(min_value=lo, max_value=hi, allow_nan=False, allow_infinity=False)


@st.composite
def wide_bounds(draw):
    """bounds of every class incl. magnitudes up to 1e300 with a finite width"""
    kind = draw(st.sampled_from(hs.BOUND_CLASSES + ("giant", "adjacent")))
    if kind == "giant":
        lb = draw(_f(-1e300, 1e299)); ub = draw(_f(lb, 1e300))
        if not ub > lb:
            ub = math.nextafter(lb, math.inf)
        return lb, ub
    if kind == "adjacent":
        lb = draw(_f(-1e6, 1e6)); return lb, math.nextafter(lb, math.inf)
    _, lb, ub = draw(hs.bound_pair((kind,)))
    return lb, ub


@st.composite
def cont_value(draw, lb, ub):
    k = draw(st.sampled_from(["in", "lb", "ub", "below1", "above1", "below", "above", "huge", "inf", "negzero",
                              "int", "np64", "np32", "npint"]))
    if k == "in":
        v = draw(_f(lb, ub))
    elif k == "lb":
        v = lb
    elif k == "ub":
        v = ub
    elif k == "below1":
        v = math.nextafter(lb, -math.inf)
    elif k == "above1":
        v = math.nextafter(ub, math.inf)
    elif k == "below":
        v = lb - draw(_f(1e-9, 1e6)) * max(1.0, abs(lb) * 1e-3)
    elif k == "above":
        v = ub + draw(_f(1e-9, 1e6)) * max(1.0, abs(ub) * 1e-3)
    elif k == "huge":
        v = draw(st.sampled_from([1e308, -1e308, 1.7976931348623157e308, -1.7976931348623157e308]))
    elif k == "inf":
        v = draw(st.sampled_from([math.inf, -math.inf]))
    elif k == "negzero":
        v = -0.0
    elif k == "int":
        v = draw(st.integers(-10 ** 6, 10 ** 6))
    elif k == "np64":
        v = np.float64(draw(_f(min(lb, -10.0), max(ub, 10.0))))
    elif k == "np32":
        v = np.float32(draw(_f(max(min(lb, -10.0), -3e38), min(max(ub, 10.0), 3e38))))
    else:
        v = np.int64(draw(st.integers(-1000, 1000)))
    boundary = k in ("lb", "ub", "below1", "above1", "inf", "huge", "negzero")
    return v, boundary


@st.composite
def disc_value(draw, n):
    k = draw(st.sampled_from(["in", "first", "last", "minus1", "n", "far", "frac", "integral_float", "huge", "inf",
                              "npint", "npfloat"]))
    if k == "in":
        v = draw(st.integers(0, n - 1))
    elif k == "first":
        v = 0
    elif k == "last":
        v = n - 1
    elif k == "minus1":
        v = -1
    elif k == "n":
        v = n
    elif k == "far":
        v = draw(st.sampled_from([-10 ** 9, 10 ** 9, n + 5, -7]))
    elif k == "frac":
        v = draw(st.integers(-1, n)) + draw(_f(0.01, 0.99))
    elif k == "integral_float":
        v = float(draw(st.integers(0, n - 1)))
    elif k == "huge":
        v = draw(st.sampled_from([1e308, -1e308]))
    elif k == "inf":
        v = draw(st.sampled_from([math.inf, -math.inf]))
    elif k == "npint":
        v = np.int64(draw(st.integers(-2, n + 1)))
    else:
        v = np.float64(draw(st.integers(-1, n)) + draw(_f(0.0, 0.99)))
    return v, k in ("first", "last", "minus1", "n", "inf", "huge")


@st.composite
def perm_value(draw, n):
    k = draw(st.sampled_from(["member", "member_nd", "member_float", "member_tuple", "keys", "ties", "near_ties",
                              "ints_oob", "with_inf", "all_equal", "near_member", "dup_in_range"]))
    if k == "near_member":
        # a permutation up to round-off: some entries one ulp (or 1e-9) away from their integer
        p = draw(st.permutations(list(range(n))))
        out = []
        for e in p:
            how = draw(st.sampled_from(["exact", "below", "above", "eps"]))
            out.append(float(e) if how == "exact" else math.nextafter(float(e), -math.inf) if how == "below"
                       else math.nextafter(float(e), math.inf) if how == "above" else e - 1e-9)
        return out, True
    if k == "dup_in_range":
        # integer keys inside 0..n-1 with repeats (some of them with the checksum of a permutation)
        v = draw(st.lists(st.integers(0, n - 1), min_size=n, max_size=n))
        return ([float(e) for e in v] if draw(st.booleans()) else v), True
    if k.startswith("member"):
        p = draw(st.permutations(list(range(n))))
        if k == "member":
            return list(p), False
        if k == "member_nd":
            return np.array(p, dtype=int), False
        if k == "member_tuple":
            return tuple(p), False
        return [float(e) for e in p], False
    if k == "keys":
        return draw(st.lists(_f(-1e6, 1e6), min_size=n, max_size=n)), False
    if k == "ties":
        return draw(st.lists(st.sampled_from([0.0, 1.0, 2.0, -1.0]), min_size=n, max_size=n)), True
    if k == "near_ties":
        base = draw(_f(-10.0, 10.0))
        return [base + i * draw(st.sampled_from([0.0, 1e-16, 5e-324, 1e-300])) for i in range(n)], True
    if k == "ints_oob":
        return draw(st.lists(st.integers(-3, n + 3), min_size=n, max_size=n)), True
    if k == "with_inf":
        v = draw(st.lists(_f(-10.0, 10.0), min_size=n, max_size=n))
        v[draw(st.integers(0, n - 1))] = draw(st.sampled_from([math.inf, -math.inf]))
        return v, True
    return [draw(_f(-5.0, 5.0))] * n, True


@st.composite
def choice_list(draw):
    if draw(st.integers(0, 4)) == 0:   # nested tuples and None as choices
        pool = [(1, 2), ("a", 3.5), None, (None,), "rbf", 7, 2.5, ()]
        n = draw(st.integers(1, 6))
        return draw(st.lists(st.sampled_from(pool), min_size=n, max_size=n, unique_by=repr))
    return draw(hs.choices_list())


@st.composite
def case_for(draw, vtype):
    seed = draw(st.integers(0, 2 ** 32 - 1))
    if vtype == "ContinuousVariable":
        lb, ub = draw(wide_bounds())
        v, b = draw(cont_value(lb, ub))
        return {"var": {"type": vtype, "name": "x", "lower_bound": lb, "upper_bound": ub}, "value": enc(v),
                "boundary": b, "rng_seed": seed}
    if vtype in ("ContinuousMultiVariable", "MultiObjectiveVariable"):
        k = draw(st.integers(1, 5))
        bs = [draw(wide_bounds()) for _ in range(k)]
        vals = [draw(cont_value(lb, ub)) for lb, ub in bs]
        container = draw(st.sampled_from(["list", "tuple"])) if vtype == "MultiObjectiveVariable" else "list"
        return {"var": {"type": vtype, "name": "x", "lower_bounds": [b[0] for b in bs],
                        "upper_bounds": [b[1] for b in bs]},
                "bounds_container": container,
                "value": enc([v for v, _ in vals]), "boundary": any(b for _, b in vals), "rng_seed": seed}
    if vtype == "DiscreteVariable":
        ch = draw(choice_list())
        v, b = draw(disc_value(len(ch)))
        return {"var": {"type": vtype, "name": "d", "choices": enc(ch)}, "value": enc(v), "boundary": b,
                "rng_seed": seed}
    if vtype == "DiscreteMultiVariable":
        k = draw(st.integers(1, 4))
        chs = [draw(choice_list()) for _ in range(k)]
        vals = [draw(disc_value(len(c))) for c in chs]
        return {"var": {"type": vtype, "name": "d", "choices": enc(chs)}, "value": enc([v for v, _ in vals]),
                "boundary": any(b for _, b in vals), "rng_seed": seed}
    if vtype == "BinaryVariable":
        k = draw(st.integers(1, 8))
        vals = [draw(disc_value(2)) for _ in range(k)]
        return {"var": {"type": vtype, "name": "b", "n_vars": k}, "value": enc([v for v, _ in vals]),
                "boundary": any(b for _, b in vals), "rng_seed": seed}
    if vtype == "PermutationVariable":
        items = draw(hs.perm_items())
        v, b = draw(perm_value(len(items)))
        return {"var": {"type": vtype, "name": "p", "items": items}, "value": enc(v), "boundary": b,
                "rng_seed": seed}
    # invalid definitions
    kind = draw(st.sampled_from(["inverted", "equal", "len_mismatch", "inverted_multi", "equal_multi", "n_vars"]))
    if kind in ("inverted", "equal"):
        lb, ub = draw(wide_bounds())
        return {"invalid": kind, "var": {"type": "ContinuousVariable", "name": "x", "lower_bound": ub,
                                         "upper_bound": lb if kind == "inverted" else ub}}
    if kind == "n_vars":
        return {"invalid": kind, "var": {"type": "BinaryVariable", "name": "b", "n_vars": draw(st.integers(-5, 0))}}
    t = draw(st.sampled_from(["ContinuousMultiVariable", "MultiObjectiveVariable"]))
    k = draw(st.integers(1, 5))
    bs = [draw(wide_bounds()) for _ in range(k)]
    lbs, ubs = [b[0] for b in bs], [b[1] for b in bs]
    j = draw(st.integers(0, k - 1))
    if kind == "len_mismatch":
        if draw(st.booleans()):
            lbs = lbs + [lbs[-1]]
        else:
            ubs = ubs[:-1] if k > 1 else ubs + [ubs[-1], ubs[-1]]
    elif kind == "inverted_multi":
        lbs[j], ubs[j] = ubs[j], lbs[j]
    else:
        ubs[j] = lbs[j]
    return {"invalid": kind, "var": {"type": t, "name": "x", "lower_bounds": lbs, "upper_bounds": ubs}}


# ---------------------------------------------------------------------------------------------------------
# oracle
# ---------------------------------------------------------------------------------------------------------
def build(var_spec, container="list"):
    v = dict(var_spec)
    if "choices" in v:
        v["choices"] = dec(v["choices"])
    if container == "tuple":
        v["lower_bounds"], v["upper_bounds"] = tuple(v["lower_bounds"]), tuple(v["upper_bounds"])
    return tasks.build_variable(v)


def _coords(var_spec):
    v = dict(var_spec)
    if "choices" in v:
        v["choices"] = dec(v["choices"])
    return oracles.flat_coords({"variables": [v]})


def _eq(a, b):
    """value equality that treats list / tuple / ndarray alike and is strict about numeric value"""
    if isinstance(a, np.ndarray):
        a = a.tolist()
    if isinstance(b, np.ndarray):
        b = b.tolist()
    if isinstance(a, (list, tuple)) and isinstance(b, (list, tuple)):
        return len(a) == len(b) and all(_eq(x, y) for x, y in zip(a, b))
    try:
        return bool(a == b)
    except Exception:  # noqa: BLE001
        return False


def laws(payload):
    """-> (violations, nontrivial)"""
    vs = payload["var"]
    t = vs["type"]
    key = lambda law: f"C13|{t}|{law}"  # noqa: E731
    if "invalid" in payload:
        try:
            build(vs)
        except ValidationError:
            return [], True
        except Exception as e:  # noqa: BLE001
            return [(key("invalid-definition-wrong-exception"), f"{payload['invalid']}: {type(e).__name__}: {e}"[:200])], True
        return [(key("invalid-definition-accepted"), f"{payload['invalid']} definition was accepted")], True

    var = build(vs, payload.get("bounds_container", "list"))
    coords = _coords(vs)
    multi = var.has_children()
    value = dec(payload["value"])
    out = []

    def as_pos(x):      # a single variable's value as a search-space position
        return list(x) if multi else [x]

    # law 1: random sampling yields members
    np.random.seed(payload["rng_seed"])
    for _ in range(3):
        r = var.randomize()
        bad = oracles.member(coords, as_pos(r))
        if bad:
            out.append((key("randomize-not-member"), f"randomize() -> {r!r}: {bad}"))
            break
    # law 2: correct maps into the domain
    try:
        c = var.correct(value)
    except Exception as e:  # noqa: BLE001
        return out + [(key("correct-raises"), f"correct({value!r}) raised {type(e).__name__}: {e}"[:300])], True
    bad = oracles.member(coords, as_pos(c))
    if bad:
        out.append((key("correct-not-member"), f"correct({value!r}) -> {c!r}: {bad}"[:300]))
    # law 3: members are fixed points
    was_member = oracles.member(coords, as_pos(value)) is None
    if was_member and not _eq(c, value):
        out.append((key("member-changed"), f"correct({value!r}) -> {c!r}"[:300]))
    # law 4: idempotence
    try:
        cc = var.correct(c)
        if not _eq(cc, c) or oracles.member(coords, as_pos(cc)) is not None:
            out.append((key("not-idempotent"), f"correct({c!r}) -> {cc!r}"[:300]))
    except Exception as e:  # noqa: BLE001
        out.append((key("correct-raises"), f"correct(correct(v)) raised {type(e).__name__}: {e}"[:300]))
    # law 5: decode of a corrected value
    if not bad:
        try:
            d = var.decode(c)
            exp = expected_decode(vs, var, c)
            if not _same_decoded(d, exp):
                out.append((key("decode-mismatch"), f"decode({c!r}) -> {d!r}, expected {exp!r}"[:300]))
        except Exception as e:  # noqa: BLE001
            out.append((key("decode-raises"), f"decode({c!r}) raised {type(e).__name__}: {e}"[:300]))
    # law 6: bounds are consistent with the declaration
    out.extend((key(k), d) for k, d in bounds_law(vs, var))
    nontrivial = payload.get("boundary", False) or not _eq(c, value)
    return out, nontrivial


def _same_decoded(d, exp):
    if isinstance(exp, list):
        return isinstance(d, (list, tuple)) and len(d) == len(exp) and all(_same_decoded(x, y) for x, y in zip(d, exp))
    return (d is exp) or (type(d) is type(exp) and d == exp) or (isinstance(exp, float) and _eq(d, exp))


def expected_decode(vs, var, c):
    t = vs["type"]
    if t == "ContinuousVariable":
        return c
    if t in ("ContinuousMultiVariable", "MultiObjectiveVariable"):
        return list(c)
    if t == "DiscreteVariable":
        return dec(vs["choices"])[c]
    if t == "DiscreteMultiVariable":
        return [ch[i] for ch, i in zip(dec(vs["choices"]), c)]
    if t == "BinaryVariable":
        return [[0, 1][i] for i in c]
    # permutation: L = decode(identity) must be a rearrangement of the declared items, decode(c) == L[c]
    n = len(vs["items"])
    ident = var.decode(list(range(n)))
    if sorted(map(repr, ident)) != sorted(map(repr, vs["items"])):
        return ["<decode(identity) is not a rearrangement of the items>", ident]
    return [ident[i] for i in c]


def bounds_law(vs, var):
    t = vs["type"]
    b = var.get_bounds()
    out = []
    try:
        if t == "ContinuousVariable":
            ok = _eq(list(b), [vs["lower_bound"], vs["upper_bound"]])
        elif t in ("ContinuousMultiVariable", "MultiObjectiveVariable"):
            ok = _eq(b[0], vs["lower_bounds"]) and _eq(b[1], vs["upper_bounds"]) and len(b) == 2
        elif t == "DiscreteVariable":
            ok = _eq(list(b), [0, len(dec(vs["choices"])) - 1])
        elif t == "DiscreteMultiVariable":
            chs = dec(vs["choices"])
            ok = len(b) == 2 and _eq(b[0], [0] * len(chs)) and _eq(b[1], [len(c) - 1 for c in chs])
        elif t == "BinaryVariable":
            lo, hi = b
            ok = len(lo) == len(hi) == vs["n_vars"] and all(x == 0 for x in lo) and all(1 <= x < 2 for x in hi)
        else:
            lo, hi = b
            n = len(vs["items"])
            ok = len(lo) == len(hi) == n and all(x == 0 for x in lo) and all(n - 1 <= x < n for x in hi)
    except Exception as e:  # noqa: BLE001
        return [("bounds-shape", f"get_bounds() -> {b!r}: {type(e).__name__}")]
    if not ok:
        out.append(("bounds-mismatch", f"get_bounds() -> {b!r} for {vs!r}"[:300]))
    if var.size() != len(_coords(vs)):
        out.append(("size-mismatch", f"size() -> {var.size()}"))
    return out


# ---------------------------------------------------------------------------------------------------------
def shards(tier):
    n = BUDGET[tier]
    out = []
    for t in TYPES:
        for part in range(2):
            out.append({"name": f"{t}#{part}", "type": t, "n": n // 2})
    return out


def run_shard(shard, tier, seed):
    ctx = runner.Ctx(ID, shard["name"])

    def case(payload):
        vio, nontrivial = laws(payload)
        ctx.case(payload, nontrivial, [("invalid:" + payload["invalid"]) if "invalid" in payload else
                                       "type:" + payload["var"]["type"]])
        ctx.judge(payload, vio)

    with runner.Reach(ctx, ["models.py"]):
        runner.drive(ctx, case_for(shard["type"]), case, shard["n"], seed)
    return ctx.to_dict()


def finalize(results, tier, seed, coverage):
    runner.merge_reach(results, coverage)
    return []


def replay(payload):
    return laws(payload)[0]
