"""C07 - a seeded run is reproducible."""
import hashlib
import json
import os
import subprocess
import sys

from hypothesis import strategies as st

from harness import VERIF_ROOT, campaign, observe, runner, strategies

ID = "C07"
LEVEL = "exploration"
RULE = ("Hypothesis draws RunSpecs (all optimizers x tasks of every encoding x configs x integer seeds 0, 1, 42, "
        "2^31-1, 2^32-1 and random ones; serial mode). Each case runs the spec twice on freshly built equal objects "
        "under different ambient state (both global RNGs - numpy and stdlib - perturbed differently before each run) "
        "and compares every position, cost, fitness and rate of every generation exactly (NaN-aware); one run in "
        "three is repeated in a fresh interpreter with another PYTHONHASHSEED (cross-process pair). A third run "
        "with seed+1 measures whether the run is random at all. Non-trivial = pair with >= 2 cycles whose trajectory "
        "differs under the other seed; distinct = SHA-256 of the spec.")
ASSUMPTIONS = ["two runs that both raise are C06's business and only counted; one raising and one not is a violation",
               "different seeds are never compared for equality (they are allowed to differ)"]
BUDGET = {"quick": 8, "thorough": 100}


def digest_hash(d):
    return hashlib.sha256(json.dumps(d, sort_keys=True).encode()).hexdigest()


def outcome(spec, pre_noise):
    s = dict(spec, pre_noise=pre_noise)
    obs = observe.run(s, keep_snaps=False, snapshots_cfg=False)
    if obs.outcome == "timeout":
        return ("timeout", None, None)
    if obs.ok:
        d = observe.result_digest(obs.result)
        return ("ok", d, len(obs.result.rates))
    return ("exc", {"exc": list(obs.exc_key)}, 0)


def first_difference(a, b):
    if a.get("exc") or b.get("exc"):
        return f"{a.get('exc')} vs {b.get('exc')}"
    if len(a["evolution"]) != len(b["evolution"]):
        return f"{len(a['evolution'])} vs {len(b['evolution'])} generations"
    for k, (ga, gb) in enumerate(zip(a["evolution"], b["evolution"])):
        if len(ga) != len(gb):
            return f"generation {k}: {len(ga)} vs {len(gb)} agents"
        for i, (x, y) in enumerate(zip(ga, gb)):
            if x != y:
                return f"generation {k} agent {i}: {x} vs {y}"[:300]
    if a["rates"] != b["rates"]:
        return f"rates {a['rates']} vs {b['rates']}"[:300]
    return f"best_solution {a['best']} vs {b['best']}"[:300]


def subprocess_digest(spec, pre_noise, hashseed):
    env = dict(os.environ, PYTHONHASHSEED=str(hashseed))
    code = ("import sys, json; sys.path.insert(0, %r); import harness; from checks import c07; "
            "spec = json.load(sys.stdin); print('DIGEST ' + json.dumps(c07.outcome(spec, %d)))" % (VERIF_ROOT, pre_noise))
    r = subprocess.run([sys.executable, "-c", code], input=json.dumps(spec), capture_output=True, text=True, env=env,
                       timeout=300)
    for line in r.stdout.splitlines():
        if line.startswith("DIGEST "):
            k, d, n = json.loads(line[7:])
            return k, _tuplify(d), n
    raise RuntimeError("no digest from the subprocess: " + r.stderr[-500:])


def _tuplify(d):
    if d is None or "exc" in d:
        return d
    return {"evolution": [[tuple(a) for a in g] for g in d["evolution"]], "rates": d["rates"],
            "best": None if d["best"] is None else tuple(d["best"])}


@st.composite
def case(draw, optimizer, tier):
    spec = draw(strategies.run_spec(
        optimizer, task=strategies.task_spec(),
        config=strategies.config_spec(optimizer, max_cycles=(1, 6 if tier == "quick" else 15)), modes=("serial",)))
    spec["noise_b"] = draw(st.integers(0, 10 ** 6))
    spec["cross_process"] = draw(st.integers(0, 2)) == 0
    spec["hashseed"] = draw(st.integers(1, 4000))
    return spec


def judge_case(spec):
    name = spec["optimizer"]
    base = {k: v for k, v in spec.items() if k not in ("noise_b", "cross_process", "hashseed")}
    ka, da, na = outcome(base, spec["pre_noise"])
    if spec.get("cross_process"):
        try:
            kb, db, nb = subprocess_digest(base, spec["noise_b"], spec["hashseed"])
        except subprocess.TimeoutExpired:
            return None                      # a starved machine is inconclusive, never a violation
    else:
        kb, db, nb = outcome(base, spec["noise_b"])
    if "timeout" in (ka, kb):
        return None
    labels = ["pair:cross-process" if spec.get("cross_process") else "pair:same-process", f"outcomes:{ka}/{kb}"]
    vio = []
    for k_, d_ in ((ka, da), (kb, db)):
        if k_ == "exc" and d_["exc"][1] == "abstract.py:optimize":
            # raised by optimize() itself before anything ran: the documented integer seed was not accepted
            vio.append((f"C07|seed-not-accepted", f"Task(seed={base['task']['seed']!r}): optimize() raised "
                                                  f"{d_['exc'][0]} before initialising the population"))
            break
    if ka != kb:
        vio.append((f"C07|{name}|outcome-differs", f"run A {ka} {da if ka == 'exc' else ''}, run B {kb} "
                                                   f"{db if kb == 'exc' else ''}"))
    elif ka == "ok" and _tuplify(da) != _tuplify(db):
        vio.append((f"C07|{name}|not-reproducible", first_difference(_tuplify(da), _tuplify(db))))
    nt = False
    if ka == "ok" and kb == "ok" and na >= 2:
        other = json.loads(json.dumps(base))
        other["task"]["seed"] = (base["task"]["seed"] + 1) % (2 ** 32)
        kc, dc, _ = outcome(other, spec["pre_noise"])
        nt = kc == "ok" and _tuplify(dc) != _tuplify(da)
        labels.append("other_seed_differs" if nt else "other_seed_same")
    return vio, nt, labels


def shards(tier):
    return campaign.optimizer_shards(BUDGET[tier])


def run_shard(shard, tier, seed):
    ctx = runner.Ctx(ID, shard["name"])

    def one(spec):
        r = judge_case(spec)
        if r is None:
            ctx.inconclusive += 1
            return
        vio, nt, labels = r
        ctx.case(spec, nt, labels)
        ctx.judge(spec, vio)

    runner.drive(ctx, case(shard["optimizer"], tier), one, shard["n"], seed, max_shrink_evals=150)
    return ctx.to_dict()


def replay(payload):
    r = judge_case(payload)
    return [] if r is None else r[0]
