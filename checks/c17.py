"""C17 - elitist optimizers never lose their best solution."""
import json
import os

from hypothesis import strategies as st

from harness import VERIF_ROOT, campaign, registry, strategies

ID = "C17"
LEVEL = "exploration"
RULE = ("Domain = optimizers classified structurally elitist from their source (baselines/elitist.json: all exported "
        "optimizers minus the listed non-elitist ones; Brain Storm x2 and Henry Gas only with a population divisible "
        "by their cluster count, constructed that way). Hypothesis draws RunSpecs (min and max tasks, all encodings, "
        "3..20 cycles quick / ..30 thorough, fitness_error/early stopping off so that runs are long). Oracle: best "
        "cost of generation k+1 is never worse than that of generation k in the task's direction, and "
        "best_solution.cost is the best cost ever recorded. Non-trivial = run whose best cost strictly improves at "
        "least once (elitism had something to keep) with >= 3 cycles; distinct = SHA-256 of the spec.")
ASSUMPTIONS = ["the elitist classification (baselines/elitist.json) is a reading of the sources and errs on the side "
               "of not claiming", "runs that raise are C06's business"]
BUDGET = {"quick": 50, "thorough": 500}

with open(os.path.join(VERIF_ROOT, "baselines", "elitist.json")) as _fh:
    TABLE = json.load(_fh)


def domain():
    return [n for n in registry.names() if n not in TABLE["non_elitist"]]


@st.composite
def config(draw, optimizer, tier):
    c = draw(strategies.config_spec(optimizer, max_cycles=(3, 20 if tier == "quick" else 30), stopping=False,
                                    perturb=0.3, min_cycles=3))
    if optimizer in TABLE["preconditions"]:
        # keep the population divisible by the cluster count: documented clusters, integer multiples only
        params = registry.load()[optimizer]["params"]
        for k in ("m_clusters", "n_clusters"):
            if k in params:
                c[k] = params[k]
        c["population_size"] = params["population_size"] * draw(st.sampled_from([1, 2, 3]))
    return c


def strategy(optimizer, tier):
    return strategies.run_spec(optimizer, task=strategies.task_spec(), config=config(optimizer, tier),
                               modes=("serial",) * 12 + ("thread", "process"))


def judge(spec, obs):
    if not obs.ok:
        return [], False, []
    vio, improved, bests = campaign.monotone_violations(spec, obs, ID)
    return vio, (improved and len(bests) >= 4), (["improved"] if improved else ["flat"])


def shards(tier):
    return campaign.optimizer_shards(BUDGET[tier], names=domain())


OKW = {"keep_snaps": False, "snapshots_cfg": False}


def run_shard(shard, tier, seed):
    return campaign.run_shard(ID, shard, seed, strategy(shard["optimizer"], tier), judge, observe_kwargs=OKW)


def replay(payload):
    return campaign.replay(payload, judge, OKW)


def finalize(results, tier, seed, coverage):
    coverage["elitist_domain"] = len(domain())
    coverage["excluded_non_elitist"] = sorted(TABLE["non_elitist"])
    return []
