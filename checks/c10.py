"""C10 - the population size is conserved across generations."""
from harness import campaign, strategies

ID = "C10"
LEVEL = "exploration"
RULE = ("Hypothesis draws RunSpecs with population sizes 1x, 1.5x, 2x, 3x the documented scale (non-divisible sizes "
        "by construction), all cycle budgets, perturbed algorithm parameters, all modes and worker counts. Oracle: "
        "every generation has 1..population_size agents; exactly population_size for every optimizer except Bee "
        "Colony (constant across the run), Forest and Imperialist Competitive. Non-trivial = completed run of >= 2 "
        "cycles with population != 1x or a pool mode; distinct = SHA-256 of the spec. About 15 % of the cases make the judged run on an optimizer instance that has already been used for an optimize() call on another task (reused instance).")
ASSUMPTIONS = ["runs that raise are C06's business", "population_size is read from the configuration object that "
               "reached optimize()"]
BUDGET = {"quick": 25, "thorough": 400}


def strategy(optimizer, tier):
    return strategies.run_spec(
        optimizer,
        task=strategies.task_spec(encodings=("cont_multi", "cont_multi", "cont_singles", "multi_objective", "mixed",
                                             "binary", "discrete", "permutation"),
                                  families=strategies.WILD_FAMILIES),
        config=strategies.config_spec(optimizer, max_cycles=(1, 6 if tier == "quick" else 20),
                                      pop_mults=(1, 1.5, 1.5, 2, 3), perturb=0.4),
        modes=("serial",) * 8 + ("thread", "process"), warmup=0.15)


def judge(spec, obs):
    if not obs.ok:
        return [], False, []
    vio = campaign.size_violations(spec, obs, ID)
    ps_fix = obs.config.population_size
    from harness import registry
    base = registry.load()[spec["optimizer"]]["params"]["population_size"]
    nt = len(obs.result.rates) >= 2 and (ps_fix != base or spec.get("mode") in ("thread", "process"))
    return vio, nt, []


def shards(tier):
    return campaign.optimizer_shards(BUDGET[tier])


OKW = {"keep_snaps": False, "snapshots_cfg": False}


def run_shard(shard, tier, seed):
    return campaign.run_shard(ID, shard, seed, strategy(shard["optimizer"], tier), judge, observe_kwargs=OKW)


def replay(payload):
    return campaign.replay(payload, judge, OKW)
