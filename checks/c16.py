"""C16 - selection helpers return exactly the best / worst members asked for."""
import itertools
import math

from hypothesis import strategies as st

from harness import runner

from pyvolutionary.models import Agent, BaseOptimizationConfig
from pyvolutionary.enums import TaskType
from pyvolutionary import helpers as H
from pyvolutionary.abstract import OptimizationAbstract

ID = "C16"
LEVEL = "exploration"
ALPHABET = [-math.inf, -2.0, -0.0, 0.0, 1.0, 3.0, math.inf]
SIZES = {"quick": 5, "thorough": 6}
GREEDY_SIZES = {"quick": 2, "thorough": 3}
RANDOM = {"quick": 150, "thorough": 2500}
RULE = ("Exhaustive part: every population of size 1..S (S=4 quick, 6 thorough) over the cost alphabet {-inf,-2,-0.0,0,"
        "1,3,+inf} (ties, signed zeros, infinities), every n in 0..size, both directions, for best_agents / "
        "worst_agents / best_agent / worst_agent / special_agents / *_indexes / sort_by_cost(_indexes) / "
        "sort_and_trim; every (old,new) pair of populations of size 1..G (G=2 quick, 3 thorough) for the greedy / "
        "extend-and-trim / replace-and-trim methods of a minimal concrete optimizer. Random part: Hypothesis "
        "populations of up to 60 agents with arbitrary finite costs. Oracle: validity predicates (count, identity "
        "membership, no duplicates, order, nobody omitted is strictly better/worse, indexes designate the same "
        "costs, inputs neither mutated nor reordered, incumbent kept unless challenger strictly cheaper). "
        "Non-trivial = population with a tie or a non-finite cost, or direction max, or n in {0,size}; distinct = "
        "the (costs, n, direction) tuple.")
ASSUMPTIONS = ["NaN costs are outside the domain", "agents are real pyvolutionary Agent subclasses tagged by position",
               "greedy population selection is judged for old and new populations of equal size (its only use)"]


class Tagged(Agent):
    tag: int = 0


class _Cfg(BaseOptimizationConfig):
    pass


class _Minimal(OptimizationAbstract):
    def optimization_step(self):
        pass

    def set_config_parameters(self, parameters):
        self._config = _Cfg(**parameters)


def make_pop(costs, base=0):
    return [Tagged(position=[base + i], cost=c, fitness=0.5, tag=base + i) for i, c in enumerate(costs)]


def snapshot(pop):
    return [(id(a), a.tag, repr(a.cost), a.fitness, list(a.position)) for a in pop]


def better(a, b, tt):
    return a < b if tt == "min" else a > b


def worse(a, b, tt):
    return better(b, a, tt)


# ---------------------------------------------------------------------------------------------------------
def check_selection(costs, n, tt):
    """all selection-helper laws for one (population, n, direction); -> list of (key, detail)"""
    out = []
    pop = make_pop(costs)
    before = snapshot(pop)
    T = TaskType(tt)
    size = len(pop)
    ids = {id(a): i for i, a in enumerate(pop)}

    def fail(law, detail):
        out.append((f"C16|{law}", f"costs={costs!r} n={n} {tt}: {detail}"[:400]))

    def valid_subset(name, res, count, best_side):
        if len(res) != count:
            fail(name + "-count", f"{len(res)} returned, {count} asked"); return False
        idx = [ids.get(id(a)) for a in res]
        if any(i is None for i in idx):
            fail(name + "-identity", "returned an object that is not a member of the population"); return False
        if len(set(idx)) != len(idx):
            fail(name + "-duplicate", f"member returned twice: {idx}"); return False
        rc = [a.cost for a in res]
        # order: best first (so for the worst side: worst last) == non-worsening... each next is not better
        for x, y in zip(rc, rc[1:]):
            if better(y, x, tt):
                fail(name + "-order", f"returned costs {rc!r}"); return False
        omitted = [pop[i].cost for i in range(size) if i not in set(idx)]
        for o in omitted:
            for r in rc:
                if best_side and better(o, r, tt):
                    fail(name + "-omitted-better", f"omitted {o!r} is better than returned {r!r}"); return False
                if not best_side and worse(o, r, tt):
                    fail(name + "-omitted-worse", f"omitted {o!r} is worse than returned {r!r}"); return False
        return True

    def same_costs(name, idxs, objs):
        if len(idxs) != len(objs):
            fail(name + "-count", f"{len(idxs)} indexes for {len(objs)} agents"); return
        if any((not isinstance(i, int)) or isinstance(i, bool) or not 0 <= i < size for i in idxs):
            fail(name + "-range", f"indexes {idxs!r}"); return
        if len(set(idxs)) != len(idxs):
            fail(name + "-duplicate", f"indexes {idxs!r}"); return
        for i, a in zip(idxs, objs):
            if not pop[i].cost == a.cost:
                fail(name + "-cost", f"indexes {idxs!r} designate costs {[pop[j].cost for j in idxs]!r}, "
                                     f"agents have {[b.cost for b in objs]!r}"); return

    b = H.best_agents(pop, n, T)
    valid_subset("best_agents", b, n, True)
    w = H.worst_agents(pop, n, T)
    valid_subset("worst_agents", w, n, False)
    same_costs("best_agents_indexes", H.best_agents_indexes(pop, n, T), b)
    same_costs("worst_agents_indexes", H.worst_agents_indexes(pop, n, T), w)
    sb, sw = H.special_agents(pop, n_best=n, n_worst=n, task_type=T)
    valid_subset("special_agents-best", sb, n, True)
    valid_subset("special_agents-worst", sw, n, False)
    sb2, sw2 = H.special_agents(pop, n_best=n, task_type=T)
    if len(sw2) != 0 or not valid_subset("special_agents-best-only", sb2, n, True):
        if len(sw2) != 0:
            fail("special_agents-best-only", "worst list not empty")
    sb3, sw3 = H.special_agents(pop, n_worst=n, task_type=T)
    if len(sb3) != 0:
        fail("special_agents-worst-only", "best list not empty")
    valid_subset("special_agents-worst-only", sw3, n, False)
    if n == 1:
        ba, wa = H.best_agent(pop, T), H.worst_agent(pop, T)
        valid_subset("best_agent", [ba], 1, True)
        valid_subset("worst_agent", [wa], 1, False)
        same_costs("best_agent_index", [H.best_agent_index(pop, T)], [ba])
        same_costs("worst_agent_index", [H.worst_agent_index(pop, T)], [wa])
    if n == size:
        s = H.sort_by_cost(pop, T)
        valid_subset("sort_by_cost", s, size, True)
        same_costs("sort_by_cost_indexes", H.sort_by_cost_indexes(pop, T), s)
        if s is pop:
            fail("sort_by_cost-alias", "returned the caller's list")
    if tt == "min":
        t = H.sort_and_trim(pop, n)
        valid_subset("sort_and_trim", t, n, True)
    if snapshot(pop) != before:
        fail("input-mutated", "the caller's list or its agents changed")
    return out


def check_greedy(old_costs, new_costs, pop_size):
    out = []

    def fail(law, detail):
        out.append((f"C16|{law}", f"old={old_costs!r} new={new_costs!r} population_size={pop_size}: {detail}"[:400]))

    opt = _Minimal(_Cfg(population_size=pop_size, max_cycles=1))
    # element-wise greedy on sorted populations (equal sizes only)
    if len(old_costs) == len(new_costs):
        old, new = make_pop(old_costs), make_pop(new_costs, base=100)
        b_old, b_new = snapshot(old), snapshot(new)
        opt._population = old
        opt._greedy_select_population(new)
        res = opt._population
        so, sn = sorted(old_costs), sorted(new_costs)
        if len(res) != len(old):
            fail("greedy_population-count", f"{len(res)} agents")
        else:
            tags = [a.tag for a in res]
            if len(set(tags)) != len(tags):
                fail("greedy_population-duplicate", f"tags {tags}")
            for i, a in enumerate(res):
                exp = sn[i] if sn[i] < so[i] else so[i]
                from_new = a.tag >= 100
                src = (new if from_new else old)[a.tag - (100 if from_new else 0)]
                if not (a.cost == exp and src.cost == a.cost and from_new == (sn[i] < so[i])):
                    fail("greedy_population-choice", f"slot {i}: got tag {a.tag} cost {a.cost!r}, sorted old "
                                                     f"{so[i]!r} vs sorted new {sn[i]!r}")
                    break
        if snapshot(old) != b_old or snapshot(new) != b_new:
            fail("greedy_population-input-mutated", "caller's lists changed")
        # pairwise greedy
        for o, nw in zip(old, new):
            r = opt._greedy_select_agent(o, nw)
            want_new = nw.cost < o.cost
            if (r.tag == nw.tag) != want_new or r.cost != (nw.cost if want_new else o.cost):
                fail("greedy_agent", f"incumbent {o.cost!r}, challenger {nw.cost!r} -> tag {r.tag}")
                break
    # extend and trim
    old, new = make_pop(old_costs), make_pop(new_costs, base=100)
    opt._population = list(old)
    opt._extend_and_trim_population(list(new))
    res = opt._population
    union = sorted(old_costs + new_costs)
    exp = union[:pop_size] if new_costs else None
    if exp is not None:
        if [a.cost for a in res] != exp and [repr(a.cost) for a in res] != [repr(c) for c in exp]:
            if not all(x == y for x, y in zip([a.cost for a in res], exp)) or len(res) != len(exp):
                fail("extend_and_trim", f"got {[a.cost for a in res]!r}, expected {exp!r}")
        if len({a.tag for a in res}) != len(res):
            fail("extend_and_trim-duplicate", f"tags {[a.tag for a in res]}")
    elif [a.tag for a in res] != [a.tag for a in old]:
        fail("extend_and_trim-empty", "population changed by an empty extension")
    # replace and trim
    opt._population = list(old)
    opt._replace_and_trim_population(list(new))
    res = opt._population
    exp = sorted(new_costs)[:pop_size]
    if len(res) != len(exp) or not all(x == y for x, y in zip([a.cost for a in res], exp)) or \
            any(a.tag < 100 for a in res) or len({a.tag for a in res}) != len(res):
        fail("replace_and_trim", f"got {[(a.tag, a.cost) for a in res]!r}, expected costs {exp!r}")
    return out


def nontrivial_sel(costs, n, tt):
    return (len(set(costs)) < len(costs) or any(not math.isfinite(c) for c in costs) or tt == "max"
            or n in (0, len(costs)))


# ---------------------------------------------------------------------------------------------------------
def shards(tier):
    out = []
    for size in range(1, SIZES[tier] + 1):
        for first in range(len(ALPHABET)):
            out.append({"name": f"exh-sel-{size}-{first}", "kind": "exh_sel", "size": size, "first": first})
    g = GREEDY_SIZES[tier]
    for so in range(1, g + 1):
        for sn in range(0, g + 1):
            out.append({"name": f"exh-greedy-{so}-{sn}", "kind": "exh_greedy", "so": so, "sn": sn})
    for i in range(8):
        out.append({"name": f"random-{i}", "kind": "random", "n": RANDOM[tier]})
    return out


def _enc(costs):
    return [repr(c) for c in costs]


def _dec(costs):
    return [float(c) for c in costs]


def run_shard(shard, tier, seed):
    ctx = runner.Ctx(ID, shard["name"], max_samples=2)
    kind = shard["kind"]
    if kind == "exh_sel":
        size = shard["size"]
        count = 0
        for rest in itertools.product(ALPHABET, repeat=size - 1):
            costs = [ALPHABET[shard["first"]]] + list(rest)
            for tt in ("min", "max"):
                for n in range(0, size + 1):
                    vio = check_selection(costs, n, tt)
                    payload = {"kind": "sel", "costs": _enc(costs), "n": n, "tt": tt}
                    ctx.case(payload, nontrivial_sel(costs, n, tt), ["exhaustive-selection"])
                    count += 1
                    try:
                        ctx.judge(payload, vio)
                    except runner.PropertyViolation:
                        p, unknown = ctx.failing
                        path = runner.write_replay(ID, ctx.shard, p, unknown)
                        for k, d in unknown:
                            ctx.violations.append({"key": k, "detail": d, "replay": path})
                            ctx.also_known.add(k)
                        ctx.shrinking = False
        ctx.extra["exhaustive_selection_cases"] = count
        return ctx.to_dict()
    if kind == "exh_greedy":
        count = 0
        for old in itertools.product(ALPHABET, repeat=shard["so"]):
            for new in itertools.product(ALPHABET, repeat=shard["sn"]):
                for ps in sorted({1, shard["so"], shard["so"] + shard["sn"]}):
                    vio = check_greedy(list(old), list(new), ps)
                    payload = {"kind": "greedy", "old": _enc(old), "new": _enc(new), "pop_size": ps}
                    ctx.case(payload, True, ["exhaustive-greedy"])
                    count += 1
                    try:
                        ctx.judge(payload, vio)
                    except runner.PropertyViolation:
                        p, unknown = ctx.failing
                        path = runner.write_replay(ID, ctx.shard, p, unknown)
                        for k, d in unknown:
                            ctx.violations.append({"key": k, "detail": d, "replay": path})
                            ctx.also_known.add(k)
                        ctx.shrinking = False
        ctx.extra["exhaustive_greedy_cases"] = count
        return ctx.to_dict()

    fl = st.one_of(st.floats(allow_nan=False, allow_infinity=False), st.floats(-5, 5).map(lambda x: float(round(x))),
                   st.sampled_from(ALPHABET))
    strat = st.one_of(
        st.builds(lambda c, n, tt: {"kind": "sel", "costs": _enc(c), "n": min(n, len(c)), "tt": tt},
                  st.lists(fl, min_size=1, max_size=60), st.integers(0, 60), st.sampled_from(["min", "max"])),
        st.builds(lambda o, nw, ps: {"kind": "greedy", "old": _enc(o), "new": _enc(nw), "pop_size": ps},
                  st.lists(fl, min_size=1, max_size=30), st.lists(fl, min_size=0, max_size=30), st.integers(1, 40)),
        st.builds(lambda pairs, ps: {"kind": "greedy", "old": _enc([p[0] for p in pairs]),
                                     "new": _enc([p[1] for p in pairs]), "pop_size": ps},
                  st.lists(st.tuples(fl, fl), min_size=1, max_size=30), st.integers(1, 40)),
    )

    def case(payload):
        vio = replay(payload)
        if payload["kind"] == "sel":
            nt = nontrivial_sel(_dec(payload["costs"]), payload["n"], payload["tt"])
        else:
            nt = True
        ctx.case(payload, nt, ["random-" + payload["kind"]])
        ctx.judge(payload, vio)

    runner.drive(ctx, strat, case, shard["n"], seed)
    return ctx.to_dict()


def replay(payload):
    if payload["kind"] == "sel":
        return check_selection(_dec(payload["costs"]), payload["n"], payload["tt"])
    return check_greedy(_dec(payload["old"]), _dec(payload["new"]), payload["pop_size"])


def finalize(results, tier, seed, coverage):
    coverage["exhaustive"] = True
    coverage["exhaustive_bound"] = (f"selection helpers: all populations of size 1..{SIZES[tier]} over a 7-letter cost "
                                    f"alphabet x all n x both directions; greedy/trim: all (old,new) with sizes "
                                    f"1..{GREEDY_SIZES[tier]} / 0..{GREEDY_SIZES[tier]}; larger populations are sampled")
    return []
