"""C20 - Multitask runs every algorithm on every task with the designated mode."""
import contextlib
import io
import itertools
import multiprocessing
import os
import shutil
import tempfile

from hypothesis import strategies as st

from harness import runner, scripted

from pyvolutionary.multitask import Multitask

ID = "C20"
LEVEL = "exploration"
DRAWN = {"quick": 96, "thorough": 800}
RULE = ("Scripted optimizers (distinct classes AlgoA/B/C, or - one drawn case in four with n >= 2 and every enumerated "
        "per-algorithm / per-pair shape - several configurations of the one class AlgoA) that log every optimize() call (algorithm, task, mode, workers) "
        "to an append-only file drive the real Multitask. Enumerated: every (n algorithms, m tasks) in 1..3 x 1..3 x every "
        "`modes` shape in {None, 1-tuple, n-tuple, m-tuple, n*m-tuple, wrong-length tuple} with mode values rotating "
        "through serial/thread/process so that every slot is distinguishable; drawn by Hypothesis: the same space with "
        "random mode values, invalid mode strings, n_trials 1..3, n_workers, n_jobs, and export in csv / json / "
        "dataframe format into a fresh temporary directory. Oracle: reference broadcast in the documented precedence "
        "(1, n, m, n*m algorithm-major): the log holds each (algorithm, task) pair exactly n_trials times, each effectively run in the "
        "reference mode (also when the algorithm instance was used before in another mode) and with the given n_workers; unknown mode strings and wrong-length tuples raise ValueError at "
        "construction; one table per algorithm of shape (n_trials, m) with one column per task; export_results creates "
        "exactly one file per algorithm directly under <path>/<algorithm name>/ with the format's extension and nothing "
        "else. Non-trivial = n >= 2 and m >= 2 with a non-broadcast `modes` shape, or an export, or a rejected "
        "construction; distinct = SHA-256 of the case.")
ASSUMPTIONS = ["tasks are of distinct classes (Multitask names table columns by task class)",
               "the export law is applied to algorithms of distinct classes only (folders and files are named after the "
               "class, so two configurations of one class share a path by design)",
               "Multitask's own process pools are real; their scheduling does not matter to the oracle (multisets)"]
ALGOS = ("AlgoA", "AlgoB", "AlgoC")
TASKS = ("TaskOne", "TaskTwo", "TaskThree")
MODES = ("serial", "thread", "process")
EXT = {"csv": ".csv", "json": ".json", "dataframe": ".pkl"}


def reference_modes(modes, n, m):
    """-> n x m table, or 'error'"""
    if modes is None:
        return [["serial"] * m for _ in range(n)]
    k = len(modes)
    if k == 1:
        t = [[modes[0]] * m for _ in range(n)]
    elif k == n:
        t = [[modes[i]] * m for i in range(n)]
    elif k == m:
        t = [list(modes) for _ in range(n)]
    elif k == n * m:
        t = [list(modes[i * m:(i + 1) * m]) for i in range(n)]
    else:
        return "error"
    if any(x not in MODES for row in t for x in row):
        return "error"
    return t


def laws(c):
    n, m = c["n"], c["m"]
    modes = None if c["modes"] is None else tuple(c["modes"])
    ref = reference_modes(modes, n, m)
    tmp = tempfile.mkdtemp(prefix="verif_c20_")
    L = scripted.LoggingOptimizer
    out = []
    key = lambda law: f"C20|{law}"  # noqa: E731
    desc = f"n={n} m={m} modes={modes!r}"
    try:
        L.log_path = os.path.join(tmp, "calls.log")
        L.scores, L.counters = {}, {}
        algos = []
        same = bool(c.get("same_class")) and n >= 2
        names = [ALGOS[0]] * n if same else list(ALGOS[:n])
        for i, name in enumerate(names):
            a = getattr(scripted, name)()
            # several configurations of one optimizer class are told apart by their parameter `a` in the call log
            a.set_config_parameters({"a": i} if same else {})
            algos.append(a)
        label = (lambda r: f"{r['algo']}#{r['params'].get('a')}") if same else (lambda r: r["algo"])  # noqa: E731
        want_label = (lambda i: f"{ALGOS[0]}#{i}") if same else (lambda i: ALGOS[i])  # noqa: E731
        variables = scripted.dummy_task().variables
        tasks_ = [getattr(scripted, t)(variables=variables) for t in TASKS[:m]]
        if c.get("preused"):
            # the algorithm instances have been used before, in another mode: Multitask must still designate its own
            for a in algos:
                with contextlib.redirect_stdout(io.StringIO()):
                    a.optimize(tasks_[0], mode=c["preused"], workers=2)
            open(L.log_path, "w").close()
        try:
            mt = Multitask(tuple(algos), tuple(tasks_), modes=modes, n_workers=c["n_workers"])
        except ValueError:
            if ref == "error":
                return [], True
            return [(key("valid-modes-rejected"), f"{desc}: ValueError at construction")], True
        except Exception as e:  # noqa: BLE001
            return [(key("construction-raises"), f"{desc}: {type(e).__name__}: {e}"[:300])], True
        if ref == "error":
            return [(key("invalid-modes-accepted"), f"{desc}: accepted at construction")], True
        with contextlib.redirect_stdout(io.StringIO()):
            mt.execute(n_trials=c["n_trials"], n_jobs=c["n_jobs"])
        log = scripted.read_log(L.log_path)
        got = sorted((label(r), r["task"], r["mode"], r["workers"]) for r in log)
        want = sorted((want_label(i), TASKS[j], ref[i][j], c["n_workers"]) for i in range(n) for j in range(m)
                      for _ in range(c["n_trials"]))
        if [g[:2] for g in got] != [w[:2] for w in want]:
            out.append((key("pairs"), f"{desc} n_trials={c['n_trials']}: calls per pair "
                                      f"{_count([g[:2] for g in got])}, expected {c['n_trials']} each"))
        elif got != want:
            bad = next((g, w) for g, w in zip(got, want) if g != w)
            out.append((key("mode"), f"{desc}: {bad[0][0]} on {bad[0][1]} ran with mode={bad[0][2]!r} workers="
                                     f"{bad[0][3]!r}, designated mode={bad[1][2]!r} workers={bad[1][3]!r}"))
        if len(mt._df2) != n:
            out.append((key("tables"), f"{desc}: {len(mt._df2)} tables for {n} algorithms"))
        else:
            for i, df in enumerate(mt._df2):
                cols = [f"{names[i]}_{TASKS[j]}" for j in range(m)]
                if df.shape != (c["n_trials"], m) or list(df.columns) != cols:
                    out.append((key("table-shape"), f"{desc}: table of {names[i]} has shape {df.shape} columns "
                                                    f"{list(df.columns)}, expected {(c['n_trials'], m)} {cols}"))
                    break
        if c["export"] and not out and not same:
            path = os.path.join(tmp, "export")
            mt.export_results(c["export"], path)
            found = sorted(os.path.relpath(os.path.join(d, f), path) for d, _, fs in os.walk(path) for f in fs)
            dirs = sorted(os.path.relpath(os.path.join(d, x), path) for d, ds, _ in os.walk(path) for x in ds)
            ok = (dirs == sorted(ALGOS[:n]) and len(found) == n and all(
                os.path.dirname(f) == ALGOS[i] and f.endswith(EXT[c["export"]])
                for i, f in enumerate(sorted(found))))
            if not ok:
                out.append((key("export-layout"), f"{desc} format={c['export']}: directories {dirs}, files {found}"))
            try:
                mt.export_results("xml", path)
                out.append((key("export-format"), "unsupported export type accepted"))
            except ValueError:
                pass
    except Exception as e:  # noqa: BLE001
        import traceback
        out.append((key("raises"), f"{desc}: {type(e).__name__}: {e} @ {traceback.extract_tb(e.__traceback__)[-1].name}"[:300]))
    finally:
        shutil.rmtree(tmp, ignore_errors=True)
        L.log_path = L.scores = L.counters = None
    k = None if modes is None else len(modes)
    nt = (n >= 2 and m >= 2 and k is not None and k > 1) or bool(c["export"])
    return out, nt


def _count(pairs):
    d = {}
    for p in pairs:
        d["/".join(p)] = d.get("/".join(p), 0) + 1
    return d


def shape_modes(shape, n, m, offset=0):
    if shape == "none":
        return None
    k = {"one": 1, "n": n, "m": m, "nm": n * m, "bad": n * m + 1 + (1 if n * m + 1 in (1, n, m) else 0)}[shape]
    return [MODES[(offset + i) % 3] for i in range(k)]


@st.composite
def drawn_case(draw):
    n, m = draw(st.integers(1, 3)), draw(st.integers(1, 3))
    shape = draw(st.sampled_from(["none", "one", "n", "m", "nm", "bad"]))
    modes = shape_modes(shape, n, m)
    if modes is not None:
        modes = [draw(st.sampled_from(MODES)) for _ in modes]
        if draw(st.integers(0, 5)) == 0:
            modes[draw(st.integers(0, len(modes) - 1))] = draw(st.sampled_from(["Serial", "parallel", "", "threads", "s"]))
    return {"n": n, "m": m, "modes": modes, "n_trials": draw(st.integers(1, 3)),
            "n_workers": draw(st.sampled_from([None, 1, 2, 4])), "n_jobs": draw(st.integers(1, 4)),
            "export": draw(st.sampled_from([None, "csv", "json", "dataframe"])),
            "preused": draw(st.sampled_from([None, None, None, "thread", "process"])),
            "same_class": n >= 2 and draw(st.integers(0, 3)) == 0}


def shards(tier):
    out = []
    for n, m in itertools.product((1, 2, 3), repeat=2):
        out.append({"name": f"shapes-{n}x{m}", "kind": "enum", "n": n, "m": m})
    for i in range(8):
        out.append({"name": f"drawn-{i}", "kind": "drawn", "count": DRAWN[tier] // 8})
    return out


def run_shard(shard, tier, seed):
    ctx = runner.Ctx(ID, shard["name"], max_samples=2)
    if shard["kind"] == "enum":
        n, m = shard["n"], shard["m"]
        for si, shape in enumerate(("none", "one", "n", "m", "nm", "bad")):
            c = {"n": n, "m": m, "modes": shape_modes(shape, n, m, offset=si), "n_trials": 1 + (n + m + si) % 2,
                 "n_workers": [None, 2][(n + si) % 2], "n_jobs": 2,
                 "export": [None, "csv", "json", "dataframe"][(n * 3 + m + si) % 4],
                 "preused": [None, "thread"][(n + m + si) % 2]}
            cases = [c] + ([dict(c, same_class=True, export=None)] if n >= 2 and shape in ("n", "nm") else [])
            for c in cases:
                vio, nt = laws(c)
                ctx.case(c, nt, [f"shape:{shape}", "enumerated"] + (["same-class algorithms"] if c.get("same_class") else []))
                try:
                    ctx.judge(c, vio)
                except runner.PropertyViolation:
                    p, unknown = ctx.failing
                    path = runner.write_replay(ID, ctx.shard, p, unknown)
                    for k, d in unknown:
                        ctx.violations.append({"key": k, "detail": d, "replay": path})
                        ctx.also_known.add(k)
                    ctx.shrinking = False
        return ctx.to_dict()

    def case(c):
        vio, nt = laws(c)
        k = "none" if c["modes"] is None else str(len(c["modes"]))
        ctx.case(c, nt, ["drawn", f"export:{c['export']}", f"modes_len:{k}"]
                 + (["same-class algorithms"] if c.get("same_class") else []))
        ctx.judge(c, vio)

    runner.drive(ctx, drawn_case(), case, shard["count"], seed, max_shrink_evals=60)
    return ctx.to_dict()


def replay(payload):
    return laws(payload)[0]


def finalize(results, tier, seed, coverage):
    coverage["exhaustive"] = True
    coverage["exhaustive_bound"] = ("every (n, m) in 1..3 x 1..3 x every `modes` shape {None, 1, n, m, n*m, wrong length} "
                                    "once with rotating mode values; mode values, trial counts and exports beyond that "
                                    "are sampled")
    return []
