"""C02 - reported cost and fitness are the true objective of the reported position."""
from harness import campaign, oracles, strategies

ID = "C02"
LEVEL = "exploration"
RULE = ("Hypothesis draws RunSpecs weighted towards max tasks, multi-objective weights (incl. 0), negative costs, "
        "integer-coded and permutation tasks, with harness-owned deterministic objectives (both styles: reading "
        "the argument directly, and calling self.transform_solution(x) like the README). For every reported agent "
        "the checker re-evaluates the objective itself from the position and from transform_solution(position) on "
        "a twin task, and recomputes the documented fitness from the reported cost (equality, tolerance 1e-9 rel. "
        "for cost, 1e-12 for fitness). Non-trivial = completed run with >= 2 distinct costs and one of {max task, "
        "multi-objective, a negative cost, an integer-coded variable}; distinct = SHA-256 of the spec. About 15 % of the cases make the judged run on an optimizer instance that has already been used for an optimize() call on another task (reused instance).")
ASSUMPTIONS = ["objective families in harness/oracles.py are the trusted ground truth (independent of the library)",
               "agents that are not members of the search space are C01's business and skipped here (counted)",
               "runs that raise are C06's business"]
BUDGET = {"quick": 25, "thorough": 400}
ENC = ("cont_multi", "cont_singles", "multi_objective", "multi_objective", "discrete", "discrete_multi", "binary",
       "mixed", "permutation", "permutation")


def strategy(optimizer, tier):
    return strategies.run_spec(
        optimizer,
        task=strategies.task_spec(encodings=ENC, minmax=("min", "max", "max"), families=strategies.WILD_FAMILIES),
        config=strategies.config_spec(optimizer, max_cycles=(1, 6 if tier == "quick" else 20)),
        modes=("serial",) * 20 + ("thread", "process"), warmup=0.15)


def judge(spec, obs):
    if not obs.ok:
        return [], False, []
    vio, n, distinct, skipped = campaign.cost_violations(spec, obs, ID)
    t = spec["task"]
    neg = any(a.cost < 0 for g in obs.result.evolution for a in g.agents)
    interesting = (t["minmax"] == "max" or t.get("weights") is not None or neg
                   or oracles.encoding_of(t) != "continuous")
    labels = [f"style:{t['objective'].get('style')}"]
    if neg:
        labels.append("negative_cost")
    if skipped:
        labels.append("non_member_agents_skipped")
    return vio, (distinct >= 2 and interesting), labels


def shards(tier):
    return campaign.optimizer_shards(BUDGET[tier])


OKW = {"keep_snaps": False, "snapshots_cfg": False}


def run_shard(shard, tier, seed):
    return campaign.run_shard(ID, shard, seed, strategy(shard["optimizer"], tier), judge, observe_kwargs=OKW)


def replay(payload):
    return campaign.replay(payload, judge, OKW)
