"""C19 - HyperTuner evaluates the whole grid and selects the best parameters."""
import contextlib
import io
import itertools
import json
import math
import multiprocessing
import os
import shutil
import tempfile

import numpy as np
from hypothesis import strategies as st

from harness import runner, scripted

from pyvolutionary.hypertuner import HyperTuner, ParameterGrid

ID = "C19"
LEVEL = "exploration"
SUBGRIDS = {"quick": 2, "thorough": 3}
EXEC = {"quick": 192, "thorough": 1600}
RULE = ("ParameterGrid laws, exhaustive: every grid made of 1..G sub-grids (G=2 quick, 3 thorough; a single dict also "
        "passed bare), each sub-grid any subset of the keys {a,b,c} (incl. the empty dict) with 1..3 values per key held "
        "in lists, tuples or 1-D arrays, keys written in alphabetical, reversed or rotated order; oracle = reference union of itertools.product over sorted keys: len(g) == "
        "len(list(g)) == len(ref), list(g) == ref in order, g[i] == list(g)[i] for all i, g[len(g)] raises IndexError; "
        "malformed grids (scalar, string, empty list, 2-D array, non-dict) are rejected. execute/resolve, model-based: a "
        "scripted optimizer logs every optimize() call (its current parameters, task, mode, workers) to an append-only "
        "file and returns a best cost taken from a Hypothesis-drawn score table S[point][trial] (small dyadics with ties "
        "between means and differing variances, and tables whose means differ by steps of 1e-7); grids <= 12 points, n_trials 1..4 (one case in four: 9..12), n_jobs 1..4, min and max tasks, all "
        "modes; one case in four first runs another execute() on the same tuner (another task whose scores would win if anything leaked). Oracle: the log holds every grid point exactly n_trials times with exactly that point's parameters; "
        "_df_fit has one row per point whose trial columns are a permutation of S[point]; best_parameters is a grid point "
        "whose mean is optimal in the task's direction (any optimal point accepted) and best_score equals that mean; "
        "resolve() issues exactly one more call, with best_parameters. Non-trivial = score table with >= 2 distinct "
        "means, or a tie for the best mean, or a max task (execute cases); every enumerated grid with >= 2 points "
        "(grid cases); distinct = SHA-256 of the case.")
ASSUMPTIONS = ["the trial counter of the scripted optimizer is a multiprocessing.Value inherited by forked workers",
               "HyperTuner's own process pools are real; their scheduling does not matter to the oracle (multisets)"]

KEYS = ("a", "b", "c")
VALUES = {"a": [1, 2, 3], "b": ["x", "y", "z"], "c": [0.5, 1.5, 2.5]}


def subgrid_shapes():
    """all sub-grids: subset of keys x number of values per key (1..3)"""
    out = [{}]
    for r in range(1, 4):
        for ks in itertools.combinations(KEYS, r):
            for counts in itertools.product((1, 2, 3), repeat=r):
                out.append(dict(zip(ks, counts)))
    return out


def materialise(shape, variant):
    items = {}
    for i, (k, n) in enumerate(sorted(shape.items())):
        vals = VALUES[k][:n]
        kind = (variant + i) % 3
        items[k] = list(vals) if kind == 0 else tuple(vals) if kind == 1 else np.array(vals)
    # the order in which the user happened to write the keys must not matter: alphabetical, reversed or rotated
    keys = sorted(items)
    if variant % 3 == 1:
        keys = keys[::-1]
    elif variant % 3 == 2:
        keys = keys[1:] + keys[:1]
    return {k: items[k] for k in keys}


def reference(subgrids):
    ref = []
    for g in subgrids:
        if not g:
            ref.append({})
            continue
        keys = sorted(g)
        for combo in itertools.product(*[[_plain(v) for v in g[k]] for k in keys]):
            ref.append(dict(zip(keys, combo)))
    return ref


def _plain(v):
    return v.item() if isinstance(v, np.generic) else v


def _norm(d):
    return {k: _plain(v) for k, v in d.items()}


def grid_laws(shapes, variant, bare):
    subgrids = [materialise(s, variant + j) for j, s in enumerate(shapes)]
    ref = reference(subgrids)
    arg = subgrids[0] if bare else subgrids
    out = []
    key = lambda law: f"C19|grid|{law}"  # noqa: E731
    desc = f"grid shapes {shapes!r}"
    try:
        g = ParameterGrid(arg)
        items = [_norm(d) for d in g]
        if len(g) != len(ref) or len(items) != len(ref):
            out.append((key("len"), f"{desc}: len(g)={len(g)}, iterated {len(items)}, reference {len(ref)}"))
        elif items != ref:
            same_multiset = sorted(map(json.dumps, items)) == sorted(map(json.dumps, ref))
            out.append((key("iteration-order" if same_multiset else "iteration-content"),
                        f"{desc}: list(g)={items[:4]!r}.., reference {ref[:4]!r}.."))
        else:
            for i in range(len(ref)):
                if _norm(g[i]) != items[i]:
                    out.append((key("getitem"), f"{desc}: g[{i}]={_norm(g[i])!r}, list(g)[{i}]={items[i]!r}"))
                    break
            try:
                g[len(ref)]
                out.append((key("getitem-no-indexerror"), f"{desc}: g[{len(ref)}] did not raise"))
            except IndexError:
                pass
    except Exception as e:  # noqa: BLE001
        out.append((key("raises"), f"{desc}: {type(e).__name__}: {e}"[:300]))
    return out, len(ref)


MALFORMED = [("scalar", {"a": 1}), ("string", {"a": "abc"}), ("empty", {"a": []}), ("2d", {"a": np.zeros((2, 2))}),
             ("non-dict", [["a", [1, 2]]]), ("none", {"a": None}), ("int-grid", 5)]


def malformed_laws(name):
    grid = dict(MALFORMED)[name]
    try:
        ParameterGrid(grid)
    except (TypeError, ValueError):
        return []
    except Exception as e:  # noqa: BLE001
        return [("C19|grid|malformed-wrong-exception", f"{name}: {type(e).__name__}: {e}"[:200])]
    return [("C19|grid|malformed-accepted", f"{name} grid {grid!r} was accepted")]


# ---------------------------------------------------------------------------------------------------------
# execute / resolve
# ---------------------------------------------------------------------------------------------------------
@st.composite
def exec_case(draw):
    n_sub = draw(st.integers(1, 2))
    shapes = []
    for _ in range(n_sub):
        ks = draw(st.lists(st.sampled_from(KEYS), min_size=0, max_size=2, unique=True))
        shapes.append({k: draw(st.integers(1, 3)) for k in ks})
    n_trials = draw(st.one_of(st.integers(1, 4), st.integers(1, 4), st.integers(1, 4), st.integers(9, 12)))
    pts = sum(math.prod(s.values()) if s else 1 for s in shapes)
    score = st.sampled_from([0.0, 1.0, 2.0, 3.0, -1.0, -2.5, 0.5, 10.0, 2.25])
    table = [[draw(score) for _ in range(n_trials + 1)] for _ in range(pts)]
    if draw(st.integers(0, 3)) == 0:
        # near-equal means: the same base score for every point plus steps of 1e-7 (nearly converged runs)
        base = draw(st.sampled_from([0.0, 5.0, -3.0]))
        table = [[base + draw(st.sampled_from([0.0, 1e-7, 2e-7, 3e-7, 5e-7])) for _ in range(n_trials + 1)]
                 for _ in range(pts)]
    if pts >= 2 and draw(st.booleans()):       # force a tie between two means with different variances
        i, j = draw(st.integers(0, pts - 1)), draw(st.integers(0, pts - 1))
        if i != j and n_trials >= 2:
            m = sum(table[i][:n_trials])
            row = [m / n_trials] * n_trials
            row[0] += 1.0; row[1] -= 1.0
            table[j] = row + [0.0]
    return {"shapes": shapes, "variant": draw(st.integers(0, 2)), "bare": n_sub == 1 and draw(st.booleans()),
            "n_trials": n_trials, "n_jobs": draw(st.integers(1, 4)), "minmax": draw(st.sampled_from(["min", "max"])),
            "mode": draw(st.sampled_from(["serial", "thread", "process"])),
            "n_workers": draw(st.sampled_from([None, 1, 2, 3])), "table": table,
            # an earlier execute() on the same tuner (another task whose scores would win if they leaked)
            "warmup": draw(st.integers(0, 3)) == 0}


def exec_laws(c):
    subgrids = [materialise(s, c["variant"] + j) for j, s in enumerate(c["shapes"])]
    ref = reference(subgrids)
    if len(ref) > 12:
        return [], False
    arg = subgrids[0] if c["bare"] else subgrids
    task = scripted.dummy_task(c["minmax"])
    tmp = tempfile.mkdtemp(prefix="verif_c19_")
    out = []
    key = lambda law: f"C19|tuner|{law}"  # noqa: E731
    L = scripted.LoggingOptimizer
    try:
        L.log_path = os.path.join(tmp, "calls.log")
        pkeys = [f"{task.name}|{json.dumps(p, sort_keys=True)}" for p in ref]
        scores = {}
        for k, row in zip(pkeys, c["table"]):
            scores.setdefault(k, row)          # duplicated grid points (two sub-grids) share a row
        L.scores = scores
        L.counters = {k: multiprocessing.Value("i", 0) for k in scores}
        algo = scripted.AlgoA()
        tuner = HyperTuner(algo, arg)
        if c.get("warmup"):
            other = scripted.TaskOne(variables=task.variables, minmax=c["minmax"])
            lure = -1000.0 if c["minmax"] == "min" else 1000.0
            for p_ in ref:
                k_ = f"{other.name}|{json.dumps(p_, sort_keys=True)}"
                L.scores[k_] = [lure, lure + 1.0]
                L.counters[k_] = multiprocessing.Value("i", 0)
            with contextlib.redirect_stdout(io.StringIO()):
                tuner.execute(other, n_trials=max(1, c["n_trials"] - 1), n_jobs=c["n_jobs"], mode="serial")
            open(L.log_path, "w").close()
        with contextlib.redirect_stdout(io.StringIO()):
            tuner.execute(task, n_trials=c["n_trials"], n_jobs=c["n_jobs"], mode=c["mode"], n_workers=c["n_workers"])
        log = scripted.read_log(L.log_path)
        want = sorted(json.dumps(p, sort_keys=True) for p in ref for _ in range(c["n_trials"]))
        got = sorted(json.dumps(r["params"], sort_keys=True) for r in log)
        if got != want:
            missing = [w for w in set(want) if got.count(w) < want.count(w)]
            extra = [g for g in set(got) if got.count(g) > want.count(g)]
            out.append((key("calls"), f"{len(got)} optimize() calls for {len(ref)} points x {c['n_trials']} trials; "
                                      f"under-evaluated {missing[:3]}, over-evaluated {extra[:3]}"))
        bad_mode = [r for r in log if r["mode"] != c["mode"] or r["workers"] != c["n_workers"]]
        if bad_mode:
            out.append((key("mode"), f"call with mode={bad_mode[0]['mode']!r} workers={bad_mode[0]['workers']!r}, "
                                     f"asked {c['mode']!r}/{c['n_workers']!r}"))
        df = tuner._df_fit
        tcols = [f"trial_{i}" for i in range(1, c["n_trials"] + 1)]
        if len(df) != len(ref):
            out.append((key("rows"), f"{len(df)} rows for {len(ref)} grid points"))
        elif not out:
            # expected scores per row: duplicated points consume consecutive trials of the shared row
            used = {}
            means = []
            for i, p in enumerate(ref):
                k = pkeys[i]
                start = used.get(k, 0)
                row = scores[k]
                exp = sorted(float(row[(start + t) % len(row)]) for t in range(c["n_trials"]))
                used[k] = start + c["n_trials"]
                gotrow = sorted(float(df.iloc[i][col]) for col in tcols)
                if _norm(df.iloc[i]["params"]) != p or gotrow != exp:
                    out.append((key("table"), f"row {i}: params {df.iloc[i]['params']!r} scores {gotrow}, expected "
                                              f"{p!r} {exp}"))
                    break
                means.append(sum(exp) / len(exp))
            if not out:
                best = min(means) if c["minmax"] == "min" else max(means)
                bp = tuner.best_parameters
                idx = [i for i, p in enumerate(ref) if _norm(bp) == p] if isinstance(bp, dict) else []
                if not idx:
                    out.append((key("best-not-a-grid-point"), f"best_parameters={bp!r}"))
                elif not any(abs(means[i] - best) <= 1e-9 for i in idx):
                    out.append((key("best-not-optimal"), f"{c['minmax']} task: best_parameters={bp!r} has mean "
                                                         f"{means[idx[0]]!r}, the grid holds {best!r} (means {means})"))
                elif abs(float(tuner.best_score) - best) > 1e-9:
                    out.append((key("best-score"), f"best_score={tuner.best_score!r}, optimal mean {best!r}"))
                else:
                    n_before = len(log)
                    with contextlib.redirect_stdout(io.StringIO()):
                        tuner.resolve(mode=c["mode"], n_workers=c["n_workers"])
                    log2 = scripted.read_log(L.log_path)
                    if len(log2) != n_before + 1 or _norm(log2[-1]["params"]) != _norm(bp):
                        out.append((key("resolve"), f"resolve() issued {len(log2) - n_before} call(s), last with "
                                                    f"{log2[-1]['params'] if log2 else None!r}, best {bp!r}"))
                distinct = len({round(m, 12) for m in means})
                ties = sum(1 for m in means if abs(m - best) <= 1e-9) > 1
                return out, (distinct >= 2 or ties or c["minmax"] == "max")
    except Exception as e:  # noqa: BLE001
        import traceback
        out.append((key("raises"), f"{type(e).__name__}: {e} @ {traceback.extract_tb(e.__traceback__)[-1].name}"[:300]))
    finally:
        shutil.rmtree(tmp, ignore_errors=True)
        L.log_path = L.scores = L.counters = None
    return out, True


# ---------------------------------------------------------------------------------------------------------
def shards(tier):
    out = []
    shapes = subgrid_shapes()
    G = SUBGRIDS[tier]
    for n in range(1, G + 1):
        if n < 3:
            out.append({"name": f"grid-{n}", "kind": "grid", "n_sub": n, "first": None})
        else:
            for first in range(len(shapes)):
                out.append({"name": f"grid-3-{first}", "kind": "grid", "n_sub": 3, "first": first})
    out.append({"name": "grid-malformed", "kind": "malformed"})
    for i in range(16):
        out.append({"name": f"exec-{i}", "kind": "exec", "n": EXEC[tier] // 16})
    return out


def _exh(ctx, payload, vio, nt, label):
    ctx.case(payload, nt, [label])
    try:
        ctx.judge(payload, vio)
    except runner.PropertyViolation:
        p, unknown = ctx.failing
        path = runner.write_replay(ID, ctx.shard, p, unknown)
        for k, d in unknown:
            ctx.violations.append({"key": k, "detail": d, "replay": path})
            ctx.also_known.add(k)
        ctx.shrinking = False


def run_shard(shard, tier, seed):
    ctx = runner.Ctx(ID, shard["name"], max_samples=2)
    if shard["kind"] == "grid":
        shapes = subgrid_shapes()
        firsts = [shapes[shard["first"]]] if shard["first"] is not None else shapes
        count = 0
        for f in firsts:
            for rest in itertools.product(shapes, repeat=shard["n_sub"] - 1):
                combo = [f] + list(rest)
                for bare in ([False, True] if shard["n_sub"] == 1 else [False]):
                    variant = count % 3
                    payload = {"kind": "grid", "shapes": combo, "variant": variant, "bare": bare}
                    vio, npts = grid_laws(combo, variant, bare)
                    _exh(ctx, payload, vio, npts >= 2, "grid-exhaustive")
                    count += 1
        ctx.extra["exhaustive_grids"] = count
        return ctx.to_dict()
    if shard["kind"] == "malformed":
        for name, _ in MALFORMED:
            _exh(ctx, {"kind": "malformed", "name": name}, malformed_laws(name), True, "grid-malformed")
        return ctx.to_dict()

    def case(c):
        vio, nt = exec_laws(c)
        ctx.case(c, nt, [f"exec:{c['minmax']}", f"exec:mode:{c['mode']}", f"exec:trials:{c['n_trials']}",
                         "exec:after_earlier_execute" if c.get("warmup") else "exec:fresh_tuner"])
        ctx.judge(c, vio)

    runner.drive(ctx, exec_case(), case, shard["n"], seed, max_shrink_evals=60)
    return ctx.to_dict()


def replay(payload):
    if payload.get("kind") == "grid":
        return grid_laws(payload["shapes"], payload["variant"], payload["bare"])[0]
    if payload.get("kind") == "malformed":
        return malformed_laws(payload["name"])
    return exec_laws(payload)[0]


def finalize(results, tier, seed, coverage):
    coverage["exhaustive"] = True
    coverage["exhaustive_bound"] = (f"ParameterGrid laws only: all grids of 1..{SUBGRIDS[tier]} sub-grids over keys "
                                    f"{{a,b,c}} with 1..3 values per key; execute/resolve cases are sampled")
    return []
