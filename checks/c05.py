"""C05 - the user's objective is only ever evaluated inside the search space."""
from harness import campaign, strategies

ID = "C05"
LEVEL = "exploration"
RULE = ("Hypothesis draws RunSpecs with the bound classes 'exactly 0', tiny width and huge scale over-weighted, plus "
        "integer-coded / mixed / permutation tasks, in all three modes. The harness' instrumented objective applies "
        "the C01 membership predicate to EVERY argument it receives (in worker processes it raises, so the finding "
        "reaches the parent) and records kind + the innermost algorithm function that asked for the evaluation. "
        "Non-trivial = run with >= 100 objective calls of which at least one argument lies exactly on a bound; "
        "distinct = SHA-256 of the spec. About 15 % of the cases make the judged run on an optimizer instance that has already been used for an optimize() call on another task (reused instance).")
ASSUMPTIONS = ["membership predicate harness/oracles.py:member", "key = (optimizer, kind, calling algorithm function)",
               "a run that raises for another reason still has its recorded calls judged"]
BUDGET = {"quick": 25, "thorough": 400}
CLASSES = ("sym", "pos", "neg", "zero_lb", "zero_lb", "zero_ub", "zero_ub", "tiny", "tiny", "huge", "huge", "int")


def strategy(optimizer, tier):
    return strategies.run_spec(
        optimizer,
        task=strategies.task_spec(classes=CLASSES),
        config=strategies.config_spec(optimizer, max_cycles=(1, 6 if tier == "quick" else 20)),
        modes=("serial",) * 10 + ("thread", "process"), warmup=0.15)


def judge(spec, obs):
    vio = campaign.call_violations(spec, obs, ID)
    labels = ["calls:%s" % ("<100" if obs.n_calls < 100 else "100-999" if obs.n_calls < 1000 else ">=1000")]
    if obs.on_bound:
        labels.append("arg_on_bound")
    return vio, (obs.n_calls >= 100 and obs.on_bound), labels


def shards(tier):
    return campaign.optimizer_shards(BUDGET[tier])


OKW = {"keep_snaps": False, "snapshots_cfg": False}


def run_shard(shard, tier, seed):
    res = campaign.run_shard(ID, shard, seed, strategy(shard["optimizer"], tier), judge, observe_kwargs=OKW)
    return res


def replay(payload):
    return campaign.replay(payload, judge, OKW)
