"""C03 - best_solution is the optimum of the final generation in the task's direction."""
from harness import campaign, strategies

ID = "C03"
LEVEL = "exploration"
RULE = ("Hypothesis draws RunSpecs weighted towards ties (constant / plateau objectives, integer-coded tasks), max "
        "tasks and pool modes. Oracle (validity predicate, any tie-break accepted): best_solution's (position, "
        "cost) equals that of some agent of evolution[-1] and no agent of evolution[-1] has a strictly better cost "
        "in the task's direction. Non-trivial = final generation with >= 2 distinct costs or a tie for the best "
        "cost; distinct = SHA-256 of the spec. About 15 % of the cases make the judged run on an optimizer instance that has already been used for an optimize() call on another task (reused instance).")
ASSUMPTIONS = ["runs that raise are C06's business", "a final generation that holds a NaN cost is not judged (infinite costs are)"]
BUDGET = {"quick": 25, "thorough": 400}
FAM = ("sphere", "abssum", "cosprod", "linear", "altlinear", "constant", "plateau", "plateau", "barrier", "logsum")


def strategy(optimizer, tier):
    return strategies.run_spec(
        optimizer,
        task=strategies.task_spec(minmax=("min", "max", "max"), families=FAM),
        config=strategies.config_spec(optimizer, max_cycles=(1, 6 if tier == "quick" else 20)),
        modes=("serial",) * 12 + ("thread", "thread", "process"), warmup=0.15)


def judge(spec, obs):
    if not obs.ok:
        return [], False, []
    if any(a.cost != a.cost for a in obs.result.evolution[-1].agents):
        # an objective that is undefined (NaN) on part of the box: "strictly better" is not defined, nothing is judged
        return [], False, ["nan_costs_not_judged"]
    vio, distinct, ties = campaign.best_violations(spec, obs, ID)
    return vio, (distinct or ties), (["tie_for_best"] if ties else []) + (["distinct_costs"] if distinct else [])


def shards(tier):
    return campaign.optimizer_shards(BUDGET[tier])


OKW = {"keep_snaps": False, "snapshots_cfg": False}


def run_shard(shard, tier, seed):
    return campaign.run_shard(ID, shard, seed, strategy(shard["optimizer"], tier), judge, observe_kwargs=OKW)


def replay(payload):
    return campaign.replay(payload, judge, OKW)
