"""C11 - thread and process modes change scheduling, not guarantees."""
import contextlib

from hypothesis import strategies as st

from harness import campaign, observe, oracles, registry, runner, strategies, tasks

import pyvolutionary.abstract as pa
import pyvolutionary.helpers as ph

ID = "C11"
LEVEL = "exploration"
RULE = ("Three drivers. (1) Harness-owned schedule: get_pool_executor and as_completed (as seen by the library) are "
        "replaced by a lazy executor whose futures are evaluated and yielded in a completion order drawn by Hypothesis "
        "(a key per future; all-equal keys = submission order); every pool hand-off is checked for multiset conservation "
        "(each submitted evaluation contributes exactly one result object, none lost, none duplicated), pooled greedy "
        "selection is compared with the serial branch on the same inputs, and whole optimize() runs of every optimizer "
        "under drawn schedules must satisfy the C01/C02/C03/C10 oracles. (2) Real thread and process pools, workers "
        "1..16, with per-evaluation delays of 0-2 ms derived from (position, drawn salt) to shuffle completion order, or with rare 120 ms stragglers among the first evaluations; in the lazy executor a result(timeout=...) on an evaluation that has not completed yet times out; "
        "same schedule-independent oracles. (3) Worker RNG replay: on continuous tasks the initial generation of a "
        "pooled run must consist of pairwise distinct points (Genetic Algorithm - 8-bit genes - and Imperialist "
        "Competitive build their initial population themselves and never pool; excluded from this sub-check). "
        "Non-trivial = lazy case whose completion order differs from submission order, or a real-pool run with workers "
        ">= 2; distinct = SHA-256 of the case.")
ASSUMPTIONS = ["real-pool interleavings are a sample biased by the injected delays, not an enumeration",
               "the lazy executor enumerates completion orders but executes sequentially: data races inside numpy's "
               "global RNG under threads are out of reach", "known C10 findings (population not conserved by design of "
               "the algorithm's grouping) are excluded by their C10 key"]
LAZY = {"quick": 20, "thorough": 150}
REAL = {"quick": 6, "thorough": 40}
NO_POOLED_INIT = ("GeneticAlgorithmOptimization", "ImperialistCompetitiveOptimization")


# ---------------------------------------------------------------------------------------------------------
# lazy executor
# ---------------------------------------------------------------------------------------------------------
class LazyFuture:
    """the concurrent.futures.Future interface over an evaluation that runs when the schedule says so"""

    def __init__(self, fn, args, kwargs):
        self.fn, self.args, self.kwargs = fn, args, kwargs
        self._done = False
        self._cancelled = False
        self.value = None
        self.exc = None
        self._callbacks = []

    def run(self):
        if not self._done:
            try:
                self.value = self.fn(*self.args, **self.kwargs)
            except BaseException as e:  # noqa: BLE001 - re-raised from result(), like a real future
                self.exc = e
            self._done = True
            for cb in self._callbacks:
                cb(self)

    def result(self, timeout=None):
        import concurrent.futures
        if self._cancelled:
            raise concurrent.futures.CancelledError()
        if timeout is not None and not self._done:
            # the schedule owns time: an evaluation that has not completed yet may take longer than any timeout
            raise concurrent.futures.TimeoutError()
        self.run()
        if self.exc is not None:
            raise self.exc
        return self.value

    def exception(self, timeout=None):
        import concurrent.futures
        if self._cancelled:
            raise concurrent.futures.CancelledError()
        if timeout is not None and not self._done:
            raise concurrent.futures.TimeoutError()
        self.run()
        return self.exc

    def done(self):
        return self._done or self._cancelled

    def running(self):
        return False

    def cancelled(self):
        return self._cancelled

    def cancel(self):
        if self._done:
            return False
        self._cancelled = True
        return True

    def add_done_callback(self, fn):
        if self._done:
            fn(self)
        else:
            self._callbacks.append(fn)


class Schedule:
    """state of one case: order keys drawn by Hypothesis + what happened at every pool hand-off"""

    def __init__(self, keys):
        self.keys = keys or [0]
        self.uses = 0
        self.reordered = 0
        self.handoff_violations = []
        self.pending = []
        self.escaped = 0


SCHED = None


class LazyExecutor:
    def __init__(self, *a, **k):
        self.futures = []

    def __enter__(self):
        return self

    def __exit__(self, *exc):
        self.shutdown()
        return False

    def shutdown(self, wait=True, cancel_futures=False):
        for f in self.futures:          # like a real pool: everything submitted has run when the pool closes
            if cancel_futures:
                f.cancel()
            if not f.cancelled():
                f.run()

    def map(self, fn, *iterables, timeout=None, chunksize=1):
        futures = [self.submit(fn, *args) for args in zip(*iterables)]
        for _ in lazy_as_completed(futures):     # completion in the drawn order, results in submission order
            pass
        return (f.result() for f in futures)

    def submit(self, fn, *args, **kwargs):
        f = LazyFuture(fn, args, kwargs)
        self.futures.append(f)
        return f


def lazy_as_completed(futures, timeout=None):
    s = SCHED
    futures = list(futures)
    if not all(isinstance(f, LazyFuture) for f in futures):
        # the library obtained a real pool through a reference this driver did not find: a real-pool case, then
        import concurrent.futures
        s.escaped += 1
        yield from concurrent.futures.as_completed(futures, timeout=timeout)
        return
    i = s.uses
    s.uses += 1
    n = len(futures)
    order = sorted(range(n), key=lambda j: (s.keys[(i * 7 + j) % len(s.keys)], j))
    if order != list(range(n)):
        s.reordered += 1
    for j in order:
        if not futures[j].cancelled():
            futures[j].run()
        yield futures[j]


def lazy_wait(futures, timeout=None, return_when=None):
    futures = list(futures)
    if not all(isinstance(f, LazyFuture) for f in futures):
        import concurrent.futures
        return concurrent.futures.wait(futures, timeout=timeout,
                                       return_when=return_when or concurrent.futures.ALL_COMPLETED)
    done = list(lazy_as_completed(futures))
    return set(done), set()


class _ParallelShim:
    """stands in for a module alias of concurrent.futures inside the library during a lazy case"""
    as_completed = staticmethod(lazy_as_completed)
    wait = staticmethod(lazy_wait)
    ThreadPoolExecutor = LazyExecutor
    ProcessPoolExecutor = LazyExecutor

    def __getattr__(self, name):
        import concurrent.futures
        return getattr(concurrent.futures, name)


def _checked(orig):
    """the library's own hand-off function (if it has one under this name), wrapped with the conservation check"""
    def checked_get_pool_results(executors, *a, **k):
        executors = list(executors)
        res = orig(executors, *a, **k)
        try:
            want = sorted(id(f.value) for f in executors)
            got = sorted(id(r) for r in res)
        except (AttributeError, TypeError):
            return res                    # not a list of lazy futures / of results: nothing to compare
        if want != got and SCHED is not None:
            SCHED.handoff_violations.append(f"{len(executors)} evaluations submitted, {len(res)} results handed back "
                                            f"({len(set(got) - set(want))} foreign, {len(set(want) - set(got))} lost, "
                                            f"{len(got) - len(set(got))} duplicated)")
        return res
    checked_get_pool_results.__wrapped_by_verif__ = True
    return checked_get_pool_results


@contextlib.contextmanager
def lazy_pools(keys):
    """Every reference the library's modules hold to concurrent.futures (the module under any alias, the two executor
    classes, as_completed, wait) is replaced by the lazy counterparts - found by identity, not by name, so that the
    driver survives a reorganisation of the pool plumbing; a function called get_pool_results, where one exists, is
    additionally wrapped with the hand-off conservation check."""
    import concurrent.futures as cf
    import sys
    import types
    global SCHED
    SCHED = Schedule(keys)
    shim = _ParallelShim()
    swap = {id(cf.ThreadPoolExecutor): LazyExecutor, id(cf.ProcessPoolExecutor): LazyExecutor,
            id(cf.as_completed): lazy_as_completed, id(cf.wait): lazy_wait, id(cf): shim}
    saved, saved_items = [], []
    wrapped = {}
    for mname, mod in list(sys.modules.items()):
        if not (mname == "pyvolutionary" or mname.startswith("pyvolutionary.")) or mod is None:
            continue
        if mname.endswith((".hypertuner", ".multitask")):
            continue                      # their process pools run whole trials; no C11 driver goes through them
        for attr, val in list(vars(mod).items()):
            if id(val) in swap:
                saved.append((mod, attr, val))
                setattr(mod, attr, swap[id(val)])
            elif isinstance(val, dict) and not attr.startswith("__"):
                # a module-level dispatch table (mode -> executor class)
                for k, v in list(val.items()):
                    if not isinstance(v, (dict, list)) and id(v) in swap:
                        saved_items.append((val, k, v))
                        val[k] = swap[id(v)]
            elif attr == "get_pool_results" and isinstance(val, types.FunctionType):
                saved.append((mod, attr, val))
                setattr(mod, attr, wrapped.setdefault(id(val), _checked(val)))
    try:
        yield SCHED
    finally:
        for mod, attr, val in saved:
            setattr(mod, attr, val)
        for container, k, v in saved_items:
            container[k] = v


# ---------------------------------------------------------------------------------------------------------
# oracles shared by the drivers
# ---------------------------------------------------------------------------------------------------------
def run_oracles(spec, obs, c10_known):
    name = spec["optimizer"]
    vio = []
    if not obs.ok:
        return vio
    v1, _, _ = campaign.membership_violations(spec, obs, "C11")
    vio += [(k.replace(f"C11|{name}|", f"C11|{name}|feasible-"), d) for k, d in v1]
    v2, _, _, _ = campaign.cost_violations(spec, obs, "C11")
    vio += [(k.replace(f"C11|{name}|", f"C11|{name}|truthful-"), d) for k, d in v2]
    if not any(a.cost != a.cost for a in obs.result.evolution[-1].agents):
        # (as in C03) with an undefined (NaN) cost in the final generation "strictly better" is not defined
        v3, _, _ = campaign.best_violations(spec, obs, "C11")
        vio += [(k.replace(f"C11|{name}|", f"C11|{name}|best-"), d) for k, d in v3]
    for k, d in campaign.size_violations(spec, obs, "C10"):
        if k in c10_known:
            continue                      # the algorithm's own grouping loses agents in every mode (C10 finding)
        vio.append((k.replace("C10|", "C11|").replace(f"|{name}|", f"|{name}|size-"), d))
    return vio


def distinct_initial(spec, obs):
    name = spec["optimizer"]
    if not obs.ok or name in NO_POOLED_INIT or oracles.encoding_of(spec["task"]) != "continuous":
        return []
    pts = [repr(observe.plain_position(a.position)) for a in obs.result.evolution[0].agents]
    if len(set(pts)) != len(pts):
        return [(f"C11|initial-population-duplicates|mode={spec.get('mode')}",
                 f"{name}: {len(pts)} initial agents hold only {len(set(pts))} distinct points (mode={spec.get('mode')}, "
                 f"workers={spec.get('workers')})")]
    return []


def greedy_equivalence(spec):
    """pooled _greedy_select_population == serial branch on the same inputs (multiset of (position, cost))"""
    name = spec["optimizer"]
    out = []
    np_ = __import__("numpy")
    results = {}
    for mode in ("serial", "lazy"):
        opt, cfg, _ = tasks.build_optimizer(name, spec["config"])
        task = tasks.build_task(spec["task"])
        tasks.REC.reset()
        opt._task = task
        np_.random.seed(spec["task"]["seed"] or 0)
        try:
            opt.before_initialization()
            old = [opt._init_agent() for _ in range(cfg.population_size)]
            new = [opt._init_agent() for _ in range(cfg.population_size)]
        except Exception:  # noqa: BLE001 - building agents outside optimize() is not supported by every optimizer
            return [], False
        opt._population = list(old)
        if mode == "serial":
            opt._greedy_select_population(list(new))
        else:
            from pyvolutionary.enums import ModeSolver
            opt._mode = ModeSolver.THREAD
            with lazy_pools(spec["order_keys"]) as s:
                opt._greedy_select_population(list(new))
            if s.handoff_violations:
                out.append((f"C11|{name}|handoff", s.handoff_violations[0]))
        results[mode] = sorted((repr(observe.plain_position(a.position)), repr(a.cost)) for a in opt._population)
    if results["serial"] != results["lazy"]:
        out.append((f"C11|{name}|greedy-selection-differs",
                    f"serial branch keeps {len(results['serial'])} agents, pooled branch {len(results['lazy'])}; "
                    f"first difference {next(((a, b) for a, b in zip(results['serial'], results['lazy']) if a != b), None)}"[:400]))
    return out, True


# ---------------------------------------------------------------------------------------------------------
@st.composite
def lazy_case(draw, optimizer, tier):
    spec = draw(strategies.run_spec(
        optimizer, task=strategies.task_spec(encodings=strategies.CONTINUOUS_ENCODINGS + ("mixed",), max_dim=5,
                                             families=strategies.FAMILIES + ("barrier",)),
        config=strategies.config_spec(optimizer, max_cycles=(1, 4 if tier == "quick" else 8), perturb=0.1),
        modes=("thread",)))
    spec["workers"] = draw(st.integers(1, 16))
    spec["order_keys"] = draw(st.lists(st.integers(0, 5), min_size=1, max_size=40))
    return spec


@st.composite
def real_case(draw, optimizer, tier):
    spec = draw(strategies.run_spec(
        optimizer, task=strategies.task_spec(encodings=strategies.CONTINUOUS_ENCODINGS, max_dim=4,
                                             families=strategies.FAMILIES + ("barrier",)),
        config=strategies.config_spec(optimizer, max_cycles=(1, 3), perturb=0.0, pop_mults=(1,), pop_offsets=(0,)),
        modes=("thread", "process", "process")))
    spec["workers"] = draw(st.integers(1, 16))
    spec["delay_salt"] = draw(st.integers(0, 1000))
    spec["delay_ms"] = draw(st.sampled_from([0.0, 0.5, 2.0, 2.0, -120.0]))   # negative: rare 120 ms stragglers
    return spec


def judge_lazy(spec, c10_known):
    base = {k: v for k, v in spec.items() if k != "order_keys"}
    with lazy_pools(spec["order_keys"]) as s:
        obs = observe.run(base, keep_snaps=False, snapshots_cfg=False)
    if obs.outcome == "timeout":
        return None
    vio = [(f"C11|{spec['optimizer']}|handoff", h) for h in s.handoff_violations[:1]]
    vio += run_oracles(spec, obs, c10_known)
    vio += distinct_initial(spec, obs)
    labels = ["lazy", f"lazy:pool_uses:{min(s.uses, 3)}{'+' if s.uses >= 3 else ''}",
              "lazy:reordered" if s.reordered else "lazy:submission-order"]
    if s.escaped:
        labels.append("lazy:library-reached-a-real-pool")
    if spec["optimizer"] in ("FicksLawOptimization", "KrillHerdOptimization", "WildebeestHerdOptimization",
                             "WindDrivenOptimization"):
        g, ran = greedy_equivalence(spec)
        vio += g
        if ran:
            labels.append("lazy:greedy-equivalence")
    return vio, (s.reordered > 0 and obs.ok), labels


def judge_real(spec, c10_known):
    base = {k: v for k, v in spec.items() if k not in ("delay_salt", "delay_ms")}
    obs = observe.run(base, keep_snaps=False, snapshots_cfg=False,
                      delay=(spec["delay_salt"], spec["delay_ms"]) if spec["delay_ms"] else None)
    if obs.outcome == "timeout":
        return None
    vio = run_oracles(spec, obs, c10_known) + distinct_initial(spec, obs)
    return vio, (obs.ok and (spec["workers"] or 4) >= 2), [f"real:{spec['mode']}", f"real:{obs.outcome}"]


def shards(tier):
    out = []
    for sh in campaign.optimizer_shards(LAZY[tier]):
        out.append(dict(sh, kind="lazy", name="lazy:" + sh["name"]))
    for sh in campaign.optimizer_shards(REAL[tier]):
        out.append(dict(sh, kind="real", name="real:" + sh["name"]))
    return out


def run_shard(shard, tier, seed):
    ctx = runner.Ctx(ID, shard["name"])
    c10_known = set(runner.load_known("C10"))
    name = shard["optimizer"]
    if shard["kind"] == "lazy":
        strat, judge = lazy_case(name, tier), judge_lazy
    else:
        strat, judge = real_case(name, tier), judge_real

    def case(spec):
        r = judge(spec, c10_known)
        if r is None:
            ctx.inconclusive += 1
            return
        vio, nt, labels = r
        ctx.case(spec, nt, labels)
        ctx.judge(spec, vio)

    runner.drive(ctx, strat, case, shard["n"], seed, max_shrink_evals=100 if shard["kind"] == "lazy" else 30)
    return ctx.to_dict()


def replay(payload):
    c10_known = set(runner.load_known("C10"))
    r = (judge_lazy if "order_keys" in payload else judge_real)(payload, c10_known)
    return [] if r is None else r[0]
