"""C08 - a run does not depend on the optimizer instance's history."""
import copy

from hypothesis import seed as hseed, strategies as st
from hypothesis.stateful import RuleBasedStateMachine, initialize, rule, run_state_machine_as_test

from harness import campaign, observe, registry, runner, strategies, tasks
from checks import c07

ID = "C08"
LEVEL = "exploration"
RULE = ("Hypothesis stateful testing: one RuleBasedStateMachine per optimizer owns ONE optimizer instance. Rules: "
        "optimize(task, seed) on tasks of any encoding / dimension / direction (so consecutive runs differ), with "
        "configurations that stop by max_cycles, fitness_error or early stopping (one configuration in four is a long run of 15..30 cycles quick / ..100 thorough that ends by the cycle budget, so that schedules derived from max_cycles unfold); set_config_parameters(d) between "
        "runs; one rule re-runs on the SAME variables with another objective, direction and seed. After every optimize rule the result of the reused instance must equal - exactly, every position, cost, "
        "fitness and rate of every generation - the result of a freshly constructed instance with the same "
        "configuration on an equal task with the same seed, and len(rates) must equal the number of cycles this run "
        "executed. Histories hold 1..4 operations (0..3 earlier runs). Non-trivial = history with >= 1 earlier run that "
        "executed >= 2 cycles; distinct = SHA-256 of the history.")
ASSUMPTIONS = ["runs are seeded (C07 makes a seeded run a function of its inputs, which is what makes fresh-vs-reused "
               "comparable)", "a run that raises must raise alike on the fresh instance"]
BUDGET = {"quick": 16, "thorough": 100}
MAX_STEPS = 4


def execute(optimizer, steps):
    """Plain executor of a history (also the replay path).  steps: [{"op": "config", "config": {...}} |
    {"op": "optimize", "task": {...}, "pre_noise": n}];  -> (violations, info) or None (watchdog)"""
    reg = registry.load()[optimizer]
    opt = None
    cfg_spec = None
    earlier_long_runs = 0
    out = []
    info = {"runs": 0, "task_changes": 0, "stops": []}
    last_task = None
    for i, st_ in enumerate(steps):
        if st_["op"] == "config":
            cfg_spec = st_["config"]
            cfg, _ = tasks.build_config(optimizer, cfg_spec)
            if opt is None:
                opt = reg["cls"](cfg)
            else:
                d = cfg.model_dump()
                opt.set_config_parameters(d)
            continue
        spec = {"optimizer": optimizer, "config": cfg_spec, "task": st_["task"], "mode": None, "workers": None,
                "pre_noise": st_["pre_noise"]}
        used = observe.run(spec, keep_snaps=False, snapshots_cfg=False, optimizer_obj=opt)
        fresh = observe.run(dict(spec, pre_noise=st_["pre_noise"] + 17), keep_snaps=False, snapshots_cfg=False)
        if "timeout" in (used.outcome, fresh.outcome):
            return None
        info["runs"] += 1
        if last_task is not None and last_task != st_["task"]["variables"]:
            info["task_changes"] += 1
        last_task = st_["task"]["variables"]
        n_earlier = info["runs"] - 1
        if used.outcome != fresh.outcome or (used.outcome == "exc" and used.exc_key != fresh.exc_key):
            out.append((f"C08|{optimizer}|outcome-differs",
                        f"run #{info['runs']} (after {n_earlier} earlier run(s)): reused instance {used.outcome} "
                        f"{used.exc_key}, fresh instance {fresh.outcome} {fresh.exc_key}"))
            break
        if used.ok:
            du = c07._tuplify(observe.result_digest(used.result))
            df = c07._tuplify(observe.result_digest(fresh.result))
            if used.steps != len(used.result.rates):
                out.append((f"C08|{optimizer}|rates-vs-cycles", f"run #{info['runs']}: {used.steps} cycles executed, "
                                                                f"{len(used.result.rates)} rates returned"))
                break
            if du != df:
                out.append((f"C08|{optimizer}|differs-from-fresh",
                            f"run #{info['runs']} (after {n_earlier} earlier run(s)): {c07.first_difference(du, df)}"))
                break
            if used.steps >= 2:
                earlier_long_runs += 1
    info["earlier_long_runs_before_last"] = earlier_long_runs - (1 if steps and steps[-1]["op"] == "optimize" and
                                                                 earlier_long_runs else 0)
    return out, info


def make_machine(optimizer, tier, ctx):
    task_st = strategies.task_spec(max_dim=5, families=strategies.WILD_FAMILIES)
    long_task_st = strategies.task_spec(max_dim=4, encodings=strategies.CONTINUOUS_ENCODINGS,
                                        families=("sphere", "abssum", "cosprod", "altlinear"))
    short = strategies.config_spec(optimizer, max_cycles=(1, 6 if tier == "quick" else 12), reverse_lists=True)
    # long runs that end by the cycle budget: adaptive schedules derived from max_cycles only unfold there
    long_ = strategies.config_spec(optimizer, max_cycles=(15, 30 if tier == "quick" else 100), stopping=False,
                                   min_cycles=15, pop_mults=(1,), perturb=0.1)
    cfg_st = st.one_of(short, short, short, long_)

    class Machine(RuleBasedStateMachine):
        def __init__(self):
            super().__init__()
            self.steps = []

        @initialize(cfg=cfg_st)
        def configure(self, cfg):
            self.steps.append({"op": "config", "config": cfg})

        @rule(task=task_st, noise=st.integers(0, 10 ** 6))
        def optimize(self, task, noise):
            self.steps.append({"op": "optimize", "task": task, "pre_noise": noise})
            self.check()

        @rule(cfg=cfg_st)
        def set_config(self, cfg):
            self.steps.append({"op": "config", "config": cfg})

        @rule(variant=strategies.task_spec(max_dim=2, encodings=("cont_multi",)), noise=st.integers(0, 10 ** 6))
        def optimize_same_variables_other_objective(self, variant, noise):
            # same search space as the previous run, another objective / direction / seed: anything remembered about
            # the previous run's agents (positions, costs) is now wrong
            prev = [s_ for s_ in self.steps if s_["op"] == "optimize"]
            if not prev:
                return
            task = copy.deepcopy(prev[-1]["task"])
            task["objective"] = dict(variant["objective"], style="direct")
            task["objective"]["terms"] = (variant["objective"]["terms"] * 3)[:len(task["objective"]["terms"])] \
                if task.get("weights") is not None else variant["objective"]["terms"][:1]
            task["minmax"] = variant["minmax"]
            task["seed"] = variant["seed"]
            self.steps.append({"op": "optimize", "task": task, "pre_noise": noise})
            self.check()

        def check(self):
            # re-execute the whole history on a new reused instance: the machine stays a pure function of its steps
            payload = {"optimizer": optimizer, "steps": copy.deepcopy(self.steps)}
            r = execute(optimizer, payload["steps"])
            if r is None:
                ctx.inconclusive += 1
                return
            vio, info = r
            if self._is_last_possible():
                pass
            ctx.case(payload, info["runs"] >= 2 and info["earlier_long_runs_before_last"] >= 1,
                     [f"earlier_runs:{info['runs'] - 1}", "task_changed" if info["task_changes"] else "same_task"])
            ctx.judge(payload, vio)

        def _is_last_possible(self):
            return len(self.steps) >= MAX_STEPS

    return Machine


def shards(tier):
    return campaign.optimizer_shards(BUDGET[tier])


def run_shard(shard, tier, seed):
    name = shard["optimizer"]
    ctx = runner.Ctx(ID, shard["name"])
    remaining = shard["n"]
    for rnd in range(3):
        ctx.failing, ctx.shrinking = None, False
        machine = make_machine(name, tier, ctx)
        try:
            run_state_machine_as_test(hseed(runner.mix_seed(seed, ID, name, rnd))(machine),
                                      settings=runner.hyp_settings(remaining, shrink=True, stateful_steps=MAX_STEPS))
        except runner.PropertyViolation:
            pass
        except registry.HarnessError:
            raise
        except BaseException as e:  # noqa: BLE001
            if ctx.failing is None:
                import traceback
                ctx.errors.append(f"{type(e).__name__}: {e}\n{traceback.format_exc()[-1500:]}")
                break
        if ctx.failing is None:
            break
        payload, unknown = ctx.failing
        path = runner.write_replay(ID, ctx.shard, payload, unknown)
        for key, detail in unknown:
            ctx.violations.append({"key": key, "detail": str(detail)[:500], "replay": path})
            ctx.also_known.add(key)
        ctx.shrinking = False
        remaining = max(1, remaining // 2)
    return ctx.to_dict()


def replay(payload):
    r = execute(payload["optimizer"], payload["steps"])
    return [] if r is None else r[0]
