"""C18 - every optimizer honours the uniform construction / configuration API."""
import contextlib
import copy
import io

from hypothesis import strategies as st
from pydantic import ValidationError

from harness import campaign, observe, registry, runner, strategies, tasks
from checks import c07

ID = "C18"
LEVEL = "exploration"
RULE = ("For each of the exported optimizer classes Hypothesis draws parameter dictionaries: valid ones from the config "
        "generator (documented scale, perturbed within the validators, early stopping as a dict) and invalid ones by "
        "mutation (out-of-range value, missing required field, wrong type, wrong list length, unknown extra key). "
        "Oracle: cls() constructs; cls().optimize(task) raises ValueError before any cycle; ConfigClass(**d) accepts "
        "<=> set_config_parameters(d) accepts, rejections are ValidationError, on acceptance optimizer.configuration "
        "== ConfigClass(**d) (pydantic equality, same class); run equivalence (exact, as in C07) between "
        "cls(ConfigClass(**d)).optimize(t) and o = cls(); o.set_config_parameters(d); o.optimize(t), also when the instance "
        "already had a different configuration (set earlier, or given to the constructor, with or without a run in between; "
        "in half of these cases the earlier configuration differs from the new one in one or two algorithm parameters only). Non-trivial = dictionary that differs from "
        "the documented-scale configuration in an algorithm field, or a rejected dictionary; distinct = SHA-256 of the "
        "case.")
ASSUMPTIONS = ["the config class of an optimizer is <Optimizer>Config as frozen in baselines/fixture_configs.json",
               "a run that raises must raise alike on both sides (its cause is C06's business)"]
BUDGET = {"quick": 60, "thorough": 400}
RUNS_EVERY = 2


def _mutate(draw, kw, params):
    kind = draw(st.sampled_from(["missing", "wrong_type", "out_of_range", "list_length", "none_required"]))
    kw = copy.deepcopy(kw)
    keys = sorted(kw)
    if kind == "missing":
        k = draw(st.sampled_from(["population_size", "max_cycles"] + [x for x in keys if x not in registry.BASE_FIELDS]))
        kw.pop(k, None)
    elif kind == "wrong_type":
        k = draw(st.sampled_from(keys))
        kw[k] = draw(st.sampled_from(["abc", [[1]], {"x": 1}]))
    elif kind == "none_required":
        k = draw(st.sampled_from(["population_size", "max_cycles"]))
        kw[k] = None
    elif kind == "list_length":
        lists = [x for x in keys if isinstance(kw[x], list)]
        if lists:
            k = draw(st.sampled_from(lists))
            kw[k] = kw[k] + kw[k] if draw(st.booleans()) else kw[k][:-1]
        else:
            kw["population_size"] = "many"
    else:
        k = draw(st.sampled_from([x for x in keys if isinstance(kw[x], (int, float)) and not isinstance(kw[x], bool)]
                                 or ["population_size"]))
        kw[k] = draw(st.sampled_from([-1, -1e9, 1e9, -0.5, 1e6]))
        if k == "early_stopping":
            kw[k] = {"patience": 0, "min_delta": 0.1}
    if draw(st.integers(0, 5)) == 0:
        kw["early_stopping"] = {"patience": draw(st.sampled_from([0, -1])), "min_delta": 0.1}
    return kw, kind


SCENARIOS = ("mutated", "mutated", "mutated", "valid", "valid", "run_fresh", "run_after_set", "run_after_constructor",
             "run_after_set_and_run", "run_after_set_and_run", "run_after_constructor_and_run",
             "run_after_constructor_and_run")


@st.composite
def case(draw, optimizer, tier):
    params = registry.load()[optimizer]["params"]
    # the scenario is drawn explicitly (a uniform choice), so that every path gets its share of the cases
    scenario = draw(st.sampled_from(SCENARIOS))
    if scenario.endswith("_and_run") and draw(st.booleans()):
        # a long second run that ends by the cycle budget: state left over by the first run gets time to matter
        cfg = draw(strategies.config_spec(optimizer, max_cycles=(15, 40), min_cycles=15, stopping=False, perturb=0.2,
                                          pop_mults=(1,)))
    else:
        cfg = draw(strategies.config_spec(optimizer, max_cycles=(1, 8), perturb=0.35, reverse_lists=True))
    kw = dict(params)
    kw.update(cfg)                      # early_stopping stays a plain dict / None
    payload = {"optimizer": optimizer, "dict": kw, "mutation": None, "scenario": scenario}
    if scenario == "mutated":
        payload["dict"], payload["mutation"] = _mutate(draw, kw, params)
    payload["with_run"] = scenario.startswith("run_")
    payload["previous"] = None
    payload["previous_how"] = None
    if "after" in scenario or (scenario in ("mutated", "valid") and draw(st.booleans())):
        prev = dict(params)
        prev.update(draw(strategies.config_spec(optimizer, max_cycles=(1, 8), perturb=0.5, reverse_lists=True)))
        algo_keys = sorted(k for k in kw if k not in registry.BASE_FIELDS
                           and isinstance(kw[k], (int, float, list)) and not isinstance(kw[k], bool))
        if algo_keys and draw(st.booleans()):
            # a sibling of the new configuration: same population size and stopping options, one or two algorithm
            # parameters different (anything derived from the earlier parameters and kept on the instance is now stale)
            prev = copy.deepcopy(kw)
            for k in draw(st.lists(st.sampled_from(algo_keys), min_size=1, max_size=2, unique=True)):
                prev[k] = strategies._perturb(draw, prev[k])
        payload["previous"] = prev
        # how the instance got its earlier configuration: set on a bare instance, given to the constructor, and in
        # the *_and_run scenarios used for a run first (so that anything computed lazily from it has been computed)
        payload["previous_how"] = (scenario[len("run_after_"):] if "after" in scenario
                                   else draw(st.sampled_from(["set", "constructor"])))
    payload["task"] = draw(strategies.task_spec(encodings=("cont_multi", "cont_multi", "mixed", "binary"), max_dim=4))
    payload["pre_noise"] = draw(st.integers(0, 10 ** 6))
    return payload


def _run(opt, task_spec, noise):
    spec = {"optimizer": type(opt).__name__, "task": task_spec, "mode": None, "workers": None, "pre_noise": noise,
            "config": {}}
    obs = observe.run(spec, keep_snaps=False, snapshots_cfg=False, optimizer_obj=opt)
    if obs.outcome == "timeout":
        return None
    if obs.ok:
        return ("ok", c07._tuplify(observe.result_digest(obs.result)))
    return ("exc", obs.exc_key)


def _too_large(d):
    """a mutated but accepted magnitude (population 1e6, 1e9 sparks..) would only make the run equivalence slow"""
    def big(v):
        if isinstance(v, bool):
            return False
        if isinstance(v, (int, float)):
            return abs(v) > 1e4
        if isinstance(v, list):
            return any(big(e) for e in v)
        return False
    return any(big(v) for v in d.values())


def laws(payload):
    name = payload["optimizer"]
    reg = registry.load()[name]
    cls, cfg_cls = reg["cls"], reg["cfg_cls"]
    d = payload["dict"]
    key = lambda law: f"C18|{name}|{law}"  # noqa: E731
    out = []
    # construction without configuration
    try:
        bare = cls()
    except Exception as e:  # noqa: BLE001
        return [(key("constructor-needs-config"), f"{name}() raised {type(e).__name__}: {e}"[:300])], True
    if bare.configuration is not None:
        out.append((key("constructor-config-not-none"), f"{name}().configuration is {bare.configuration!r}"[:200]))
    # refuses to optimise until configured
    task = tasks.build_task(payload["task"])
    observe._LOG.steps = 0
    try:
        with observe.instrumented(cls), contextlib.redirect_stdout(io.StringIO()), observe.watchdog(60):
            cls().optimize(task)
        out.append((key("optimize-without-config-accepted"), "optimize() on an unconfigured optimizer returned"))
    except ValueError:
        if observe._LOG.steps:
            out.append((key("optimize-without-config-late"), f"ValueError only after {observe._LOG.steps} cycles"))
    except observe.CaseTimeout:
        return None
    except Exception as e:  # noqa: BLE001
        out.append((key("optimize-without-config-wrong-exception"), f"{type(e).__name__}: {e}"[:300]))
    # config class vs set_config_parameters
    try:
        ref = cfg_cls(**copy.deepcopy(d))
        ref_err = None
    except ValidationError as e:
        ref, ref_err = None, e
    except Exception as e:  # noqa: BLE001 - e.g. TypeError from a validator on a wrong type
        ref, ref_err = None, e
    o = cls()
    if payload["previous"] is not None:
        how = payload.get("previous_how") or "set"
        try:
            if how.startswith("constructor"):
                o = cls(cfg_cls(**copy.deepcopy(payload["previous"])))
            else:
                o.set_config_parameters(copy.deepcopy(payload["previous"]))
            if how.endswith("_run") and not _too_large(payload["previous"]):
                _run(o, payload["task"], payload["pre_noise"] + 2)
        except Exception:  # noqa: BLE001 - an invalid previous dict just leaves the optimizer unconfigured
            o = o if o.configuration is not None or how.startswith("set") else cls()
    try:
        o.set_config_parameters(copy.deepcopy(d))
        set_err = None
    except Exception as e:  # noqa: BLE001
        set_err = e
    if ref is not None and set_err is not None:
        out.append((key("set_config-rejects-valid"), f"{cfg_cls.__name__}(**d) accepts but set_config_parameters "
                                                     f"raised {type(set_err).__name__}: {set_err}"[:300]))
    elif ref is None and set_err is None:
        out.append((key("set_config-accepts-invalid"), f"{cfg_cls.__name__}(**d) raises {type(ref_err).__name__} but "
                                                       f"set_config_parameters accepted {d!r}"[:300]))
    elif ref is None and isinstance(ref_err, ValidationError) and not isinstance(set_err, ValidationError):
        out.append((key("set_config-wrong-exception"), f"{type(set_err).__name__} instead of ValidationError"))
    elif ref is not None:
        got = o.configuration
        if type(got) is not cfg_cls or got != ref:
            out.append((key("set_config-different-config"), f"configuration {got!r} != {ref!r}"[:400]))
        elif payload["with_run"] and not _too_large(d):
            a = _run(cls(cfg_cls(**copy.deepcopy(d))), payload["task"], payload["pre_noise"])
            b = _run(o, payload["task"], payload["pre_noise"] + 1)
            if a is None or b is None:
                return None
            if a != b:
                detail = (c07.first_difference(a[1], b[1]) if a[0] == b[0] == "ok" else f"{a[0]} {a[1] if a[0] == 'exc' else ''} vs {b[0]} {b[1] if b[0] == 'exc' else ''}")
                out.append((key("run-differs"), f"constructor-configured vs set_config_parameters: {detail}"[:400]))
    params = reg["params"]
    differs = any(k not in registry.BASE_FIELDS and d.get(k) != params.get(k) for k in set(d) | set(params))
    return out, (differs or ref is None)


def shards(tier):
    return campaign.optimizer_shards(BUDGET[tier])


def run_shard(shard, tier, seed):
    ctx = runner.Ctx(ID, shard["name"])

    def one(payload):
        r = laws(payload)
        if r is None:
            ctx.inconclusive += 1
            return
        vio, nt = r
        ctx.case(payload, nt, ["mutation:" + str(payload["mutation"]), "with_run" if payload["with_run"] else "no_run",
                               ("after_previous:" + str(payload.get("previous_how"))) if payload["previous"] else "fresh_instance",
                               "scenario:" + str(payload.get("scenario"))])
        ctx.judge(payload, vio)

    runner.drive(ctx, case(shard["optimizer"], tier), one, shard["n"], seed)
    return ctx.to_dict()


def replay(payload):
    r = laws(payload)
    return [] if r is None else r[0]
