"""C09 - optimize() does not modify the caller's configuration or task."""
from hypothesis import strategies as st

from harness import campaign, observe, strategies

ID = "C09"
LEVEL = "exploration"
RULE = ("Hypothesis draws RunSpecs (all optimizers x tasks of every encoding x configs incl. early stopping, perturbed parameters and list-valued ranges given high-to-low x seeds (one task in four unseeded) x "
        "all three modes x the debug switch (one run in five)), plus calls that raise (unknown mode string, non-positive workers, and whatever input "
        "crashes the algorithm). A deep structural snapshot (recursive over pydantic fields incl. private attributes, "
        "lists, dicts, numpy arrays; types and float bit patterns preserved) of the caller's config object and task "
        "object is taken before and after optimize() and compared field by field; optimizer.configuration must still "
        "be the caller's object. Non-trivial = call that executed >= 2 cycles or that raised; distinct = SHA-256 of "
        "the spec.")
ASSUMPTIONS = ["snapshot function harness/observe.py:snapshot covers every declared and private pydantic field",
               "the task's data dictionary is part of the task and is compared too"]
BUDGET = {"quick": 15, "thorough": 200}


@st.composite
def case(draw, optimizer, tier):
    spec = draw(strategies.run_spec(
        optimizer, task=strategies.task_spec(array_rows=0.3, seeded="mostly"),
        config=strategies.config_spec(optimizer, max_cycles=(1, 6 if tier == "quick" else 15), perturb=0.4,
                                      reverse_lists=True),
        modes=("serial",) * 8 + ("thread", "process"), debug=0.2))
    bad = draw(st.sampled_from([None] * 8 + ["mode", "workers"]))
    if bad == "mode":
        spec["mode"] = draw(st.sampled_from(["Serial", "parallel", "x"]))
    elif bad == "workers":
        spec["workers"] = draw(st.sampled_from([0, -2]))
    return spec


def judge(spec, obs):
    name = spec["optimizer"]
    vio = []
    for what, before, after in (("config", obs.cfg_before, obs.cfg_after), ("task", obs.task_before, obs.task_after)):
        d = observe.diff_snapshots(before, after)
        if d:
            field = d[0].lstrip(".").split("[")[0].split(".")[0]
            vio.append((f"C09|{name}|{what}|{field}", f"{what} changed at {d[:4]}"))
    if obs.cfg_identity_same is False:
        vio.append((f"C09|{name}|config-replaced", "optimizer.configuration is no longer the caller's object"))
    nt = (obs.ok and len(obs.result.rates) >= 2) or obs.outcome == "exc"
    return vio, nt, ["raised" if obs.outcome == "exc" else "returned"]


def shards(tier):
    return campaign.optimizer_shards(BUDGET[tier])


OKW = {"keep_snaps": False, "snapshots_cfg": True}


def run_shard(shard, tier, seed):
    return campaign.run_shard(ID, shard, seed, case(shard["optimizer"], tier), judge, observe_kwargs=OKW)


def replay(payload):
    return campaign.replay(payload, judge, OKW)
