"""C01 - every reported solution lies inside the declared search space."""
from harness import campaign, oracles, strategies

ID = "C01"
LEVEL = "exploration"
RULE = ("Hypothesis draws RunSpecs (optimizer x task of every encoding x config at/above documented scale x seed x "
        "mode); each case is one complete optimize(); every agent of every generation and best_solution is "
        "tested with a membership predicate written from the variable declarations. Non-trivial = completed "
        "run in which a reported coordinate sits exactly on a bound or the task has a non-continuous variable; "
        "distinct = SHA-256 of the spec. About 15 % of the cases make the judged run on an optimizer instance that has already been used for an optimize() call on another task (reused instance).")
ASSUMPTIONS = ["membership predicate harness/oracles.py:member is the trusted statement of the search space",
               "runs that raise are judged by C06, here they are only counted",
               "pool modes sampled with a small weight (C11 explores schedules)"]
BUDGET = {"quick": 25, "thorough": 400}


def strategy(optimizer, tier):
    modes = ("serial",) * 20 + ("thread", "process")
    return strategies.run_spec(
        optimizer,
        task=strategies.task_spec(),
        config=strategies.config_spec(optimizer, max_cycles=(1, 8 if tier == "quick" else 25)),
        modes=modes, warmup=0.15)


def judge(spec, obs):
    if not obs.ok:
        return [], False, []
    vio, n_agents, touched = campaign.membership_violations(spec, obs, ID)
    enc = oracles.encoding_of(spec["task"])
    labels = ["on_bound" if touched else "interior"]
    return vio, (touched or enc != "continuous"), labels


def shards(tier):
    return campaign.optimizer_shards(BUDGET[tier])


def run_shard(shard, tier, seed):
    return campaign.run_shard(ID, shard, seed, strategy(shard["optimizer"], tier), judge,
                              observe_kwargs={"keep_snaps": False, "snapshots_cfg": False})


def replay(payload):
    return campaign.replay(payload, judge, {"keep_snaps": False, "snapshots_cfg": False})
