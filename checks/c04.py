"""C04 - optimize() terminates exactly when the first configured stop criterion holds."""
import contextlib
import io
import itertools
import math

import numpy as np
from hypothesis import strategies as st

from harness import campaign, oracles, runner, scripted, strategies

from pyvolutionary.models import EarlyStopping

ID = "C04"
LEVEL = "exploration"
LETTERS = [0.0, 0.125, 0.25, 0.5, 0.75]                # dyadic rates: every difference and comparison is exact
FE = [None, 0.0, 0.0625, 0.125, 0.25, 0.375, 0.5]      # on and between the letters
MIN_DELTA = [0.0, 0.0625, 0.125, 0.1875, 0.25, 0.5, 1.0]   # on and between the letter gaps
PATIENCE = [1, 2, 3]
LEN = {"quick": 4, "thorough": 6}
HYP = {"quick": 150, "thorough": 3000}
REAL = {"quick": 10, "thorough": 200}
RULE = ("Model-based half: a scripted optimizer (harness subclass driving the library's own optimize() loop) replays "
        "a prescribed history of convergence rates and counts its optimization_step calls. Exhaustive: every rate "
        "history up to length L (4 quick / 6 thorough) over the dyadic alphabet {0,1/8,1/4,1/2,3/4}, enumerated as a "
        "prefix tree cut at the reference stop and padded beyond it (a late stop is visible), x max_cycles 1..L x "
        "fitness_error in {None,0,1/16,1/8,1/4,3/8,1/2} x early stopping in {None} + {patience 1,2,3} x {min_delta "
        "0,1/16,1/8,3/16,1/4,1/2,1} x population 1/2/4; plus Hypothesis with arbitrary fitness values, patience "
        "1..6, any float min_delta (0, negative), max_cycles <= 40. Oracle: independent reference of the documented "
        "rule -> exactly k steps, k+1 generations, rates == [r_1..r_k]. Observational half: real runs of all "
        "optimizers: len(evolution) == len(rates)+1 == steps+1 <= max_cycles+1, rates[k] == |1 - mean fitness| of the "
        "harness' deep snapshot of cycle k+1, and the reference rule applied to the reported rates stops at exactly "
        "len(rates). Non-trivial = the stopping cycle is decided by a criterion other than max_cycles, or a rate "
        "equals a threshold exactly; distinct = the (history, configuration) tuple.")
ASSUMPTIONS = ["reference stop rule harness/oracles.py:reference_stop_index (first difference is against 0; window = "
               "last min(patience, k) differences) is the trusted statement of the rule",
               "patience=None / min_delta=None are outside the property's domain and not generated",
               "a real optimizer hanging inside optimization_step would be reported as inconclusive by the watchdog"]


def run_scripted(fitness, pop, max_cycles, fe, es, configure=None):
    cfg = scripted.ScriptConfig(population_size=pop, max_cycles=max_cycles, fitness_error=fe,
                                early_stopping=None if es is None else EarlyStopping(patience=es[0], min_delta=es[1]))
    if configure is None:
        opt = scripted.RateScriptOptimizer(cfg, fitness_script=fitness, pop_size=pop)
    else:
        # the configuration arrives through set_config_parameters (as HyperTuner does it): on a bare instance
        # ("set"), or on one constructed with other stopping options ("reset")
        first = None if configure == "set" else scripted.ScriptConfig(
            population_size=pop, max_cycles=max_cycles + 3, fitness_error=None,
            early_stopping=EarlyStopping(patience=1 if es is None or es[0] > 1 else 5, min_delta=0.5))
        opt = scripted.RateScriptOptimizer(first, fitness_script=fitness, pop_size=pop)
        opt.set_config_parameters(cfg.model_dump())
    with contextlib.redirect_stdout(io.StringIO()):
        res = opt.optimize(scripted.dummy_task())
    return opt.steps_run, res


def check_scripted(payload):
    """payload: {fitness: [...], pop, max_cycles, fe, es}; -> violations"""
    fitness = [float(f) for f in payload["fitness"]]
    es = tuple(payload["es"]) if payload["es"] is not None else None
    rates = [abs(1 - f) for f in fitness]
    k = oracles.reference_stop_index(rates, payload["max_cycles"], payload["fe"], es)
    if k is None:
        return [], None
    try:
        steps, res = run_scripted(fitness, payload["pop"], payload["max_cycles"], payload["fe"], es,
                                  payload.get("configure"))
    except Exception as e:  # noqa: BLE001
        return [("C04|model|raises", f"{type(e).__name__}: {e}"[:300])], k
    out = []
    crit = "+".join(oracles.deciding_criteria(rates, k, payload["max_cycles"], payload["fe"], es))
    if steps != k:
        out.append((f"C04|model|stop-{'late' if steps > k else 'early'}",
                    f"rates {rates[:max(k, steps) + 1]!r} max_cycles={payload['max_cycles']} fitness_error="
                    f"{payload['fe']!r} early_stopping={es!r}: reference stops after cycle {k} ({crit}), "
                    f"optimize() ran {steps} cycles"))
    elif len(res.evolution) != k + 1:
        out.append(("C04|model|generations", f"{len(res.evolution)} generations for {k} cycles"))
    elif list(res.rates) != rates[:k]:
        out.append(("C04|model|rates", f"reported rates {list(res.rates)!r}, scripted {rates[:k]!r}"))
    return out, k


def enumerate_histories(max_cycles, fe, es, L):
    """prefix tree over LETTERS cut at the reference stop; yields the stopping histories"""
    stack = [()]
    while stack:
        h = stack.pop()
        for r in LETTERS:
            h2 = h + (r,)
            if oracles.reference_stop_index(h2, max_cycles, fe, es) is not None:
                yield h2
            elif len(h2) < L:
                stack.append(h2)


def pad(history):
    # two more cycles with rates that differ from the last one in both directions
    last = history[-1]
    return list(history) + [0.75 if last < 0.5 else 0.0, 0.125]


def nontrivial_model(rates, k, max_cycles, fe, es):
    crit = oracles.deciding_criteria(rates, k, max_cycles, fe, es)
    exact = (fe is not None and any(r == fe for r in rates[:k])) or \
            (es is not None and any(abs(b - a) == es[1] for a, b in zip([0.0] + list(rates[:k - 1]), rates[:k])))
    return crit != ["max_cycles"] or exact, crit


# ---------------------------------------------------------------------------------------------------------
def shards(tier):
    L = LEN[tier]
    out = []
    for mc in range(1, L + 1):
        for i, fe in enumerate(FE):
            out.append({"name": f"exh-mc{mc}-fe{i}", "kind": "exh", "max_cycles": mc, "fe": fe, "L": L})
    for i in range(8):
        out.append({"name": f"hyp-{i}", "kind": "hyp", "n": HYP[tier]})
    out.extend(campaign.optimizer_shards(REAL[tier], extra={"kind": "real"}))
    return out


@st.composite
def hyp_case(draw):
    n = draw(st.integers(1, 12))
    kind = draw(st.sampled_from(["free", "decreasing", "plateau", "dyadic"]))
    if kind == "free":
        fit = draw(st.lists(st.floats(-2.0, 3.0, allow_nan=False), min_size=n, max_size=n))
    elif kind == "dyadic":
        fit = [1.0 - draw(st.sampled_from(LETTERS + [0.375, 0.0625])) for _ in range(n)]
    else:
        r = draw(st.floats(0.01, 1.0, allow_nan=False))
        fit = []
        for _ in range(n):
            fit.append(1.0 - r)
            r = r - draw(st.sampled_from([0.0, 1e-6, 1e-4, 1e-3, 0.01])) if kind == "decreasing" else r
            r = max(r, 0.0)
    es = draw(st.one_of(st.none(), st.tuples(
        st.integers(1, 6),
        st.one_of(st.sampled_from([0.0, 1e-4, 1e-3, 0.01, 1.0, -1.0]), st.floats(-1.0, 2.0, allow_nan=False)))))
    fe = draw(st.one_of(st.none(), st.sampled_from([0.0, 0.1, 0.5]), st.floats(-0.5, 1.5, allow_nan=False),
                        st.sampled_from([abs(1 - f) for f in fit])))
    return {"fitness": fit + [fit[-1] + 0.25, fit[-1] - 0.125], "pop": draw(st.sampled_from([1, 2])),
            "max_cycles": draw(st.integers(1, 40)), "fe": fe, "es": None if es is None else list(es),
            "configure": draw(st.sampled_from([None, None, "set", "reset"]))}


def judge_real(spec, obs):
    if not obs.ok:
        return [], False, []
    res = obs.result
    name = spec["optimizer"]
    cfg = obs.config
    es = None if cfg.early_stopping is None else (cfg.early_stopping.patience, cfg.early_stopping.min_delta)
    rates = list(res.rates)
    out = []
    if len(res.evolution) != len(rates) + 1:
        out.append((f"C04|{name}|history-length", f"{len(res.evolution)} generations, {len(rates)} rates"))
    if obs.steps != len(rates):
        out.append((f"C04|{name}|steps-vs-rates", f"{obs.steps} cycles executed, {len(rates)} rates reported"))
    if not 1 <= len(rates) <= cfg.max_cycles:
        out.append((f"C04|{name}|cycle-bound", f"{len(rates)} cycles with max_cycles={cfg.max_cycles}"))
    for k, snap in enumerate(obs.snaps[:len(rates)]):
        fits = [f for _, _, f in snap]
        exp = abs(1 - float(np.mean(fits))) if fits else float("nan")
        if not (rates[k] == exp or abs(rates[k] - exp) <= 1e-12 * max(1.0, abs(exp)) or (exp != exp and rates[k] != rates[k])):
            out.append((f"C04|{name}|rate-value", f"rate of cycle {k + 1} is {rates[k]!r}, |1 - mean fitness| of that "
                                                   f"generation is {exp!r}"))
            break
    finite = all(r == r for r in rates)
    nt, crit = False, []
    if rates and finite and not out:
        k = oracles.reference_stop_index(rates, cfg.max_cycles, cfg.fitness_error, es)
        if k != len(rates):
            out.append((f"C04|{name}|stop-{'late' if k is not None else 'early'}",
                        f"reported rates {rates!r}, max_cycles={cfg.max_cycles} fitness_error={cfg.fitness_error!r} "
                        f"early_stopping={es!r}: reference stops after cycle {k}, run stopped after {len(rates)}"))
        else:
            nt, crit = nontrivial_model(rates, k, cfg.max_cycles, cfg.fitness_error, es)
    return out, nt, ["stopped_by:" + "+".join(crit)] if crit else []


def run_shard(shard, tier, seed):
    ctx = runner.Ctx(ID, shard["name"], max_samples=2)
    if shard["kind"] == "exh":
        mc, fe, L = shard["max_cycles"], shard["fe"], shard["L"]
        configs = [None] + [(p, d) for p in PATIENCE for d in MIN_DELTA]
        count = 0
        for es in configs:
            for h in enumerate_histories(mc, fe, es, L):
                for pop in (1, 2, 4):
                    payload = {"fitness": [1.0 - r for r in pad(h)], "pop": pop, "max_cycles": mc, "fe": fe,
                               "es": None if es is None else list(es),
                               "configure": {1: None, 2: "set", 4: "reset"}[pop]}
                    vio, k = check_scripted(payload)
                    nt, crit = nontrivial_model(h, k, mc, fe, es)
                    ctx.case(payload, nt, ["model:stopped_by:" + "+".join(crit)])
                    count += 1
                    try:
                        ctx.judge(payload, vio)
                    except runner.PropertyViolation:
                        p_, unknown = ctx.failing
                        path = runner.write_replay(ID, ctx.shard, p_, unknown)
                        for key, d in unknown:
                            ctx.violations.append({"key": key, "detail": d, "replay": path})
                            ctx.also_known.add(key)
                        ctx.shrinking = False
        ctx.extra["exhaustive_scripted_runs"] = count
        return ctx.to_dict()
    if shard["kind"] == "hyp":
        def case(payload):
            vio, k = check_scripted(payload)
            if k is None:
                ctx.case(payload, False, ["model:no-stop-within-script"])
                return
            rates = [abs(1 - f) for f in payload["fitness"]]
            es = tuple(payload["es"]) if payload["es"] else None
            nt, crit = nontrivial_model(rates, k, payload["max_cycles"], payload["fe"], es)
            ctx.case(payload, nt, ["model-random:stopped_by:" + "+".join(crit)])
            ctx.judge(payload, vio)
        runner.drive(ctx, hyp_case(), case, shard["n"], seed)
        return ctx.to_dict()
    strat = strategies.run_spec(shard["optimizer"], task=strategies.task_spec(),
                                config=strategies.config_spec(shard["optimizer"],
                                                              max_cycles=(1, 8 if tier == "quick" else 25)),
                                modes=("serial",), warmup=0.2)
    return campaign.run_shard(ID, shard, seed, strat, judge_real,
                              observe_kwargs={"keep_snaps": True, "snapshots_cfg": False})


def replay(payload):
    if "optimizer" in payload:
        return campaign.replay(payload, judge_real, {"keep_snaps": True, "snapshots_cfg": False})
    return check_scripted(payload)[0]


def finalize(results, tier, seed, coverage):
    coverage["exhaustive"] = True
    coverage["exhaustive_bound"] = (f"scripted half only: all rate histories of length <= {LEN[tier]} over "
                                    f"{LETTERS} x max_cycles 1..{LEN[tier]} x {len(FE)} fitness_error values x "
                                    f"{1 + len(PATIENCE) * len(MIN_DELTA)} early-stopping settings x populations 1/2/4; "
                                    f"the Hypothesis and real-run parts are samples")
    return []
