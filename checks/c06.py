"""C06 - a valid problem yields a result; an invalid call is rejected up front."""
import contextlib
import io
import json
import os

from hypothesis import strategies as st
from pydantic import ValidationError

from harness import VERIF_ROOT, campaign, observe, registry, runner, strategies, tasks

ID = "C06"
LEVEL = "exploration"
RULE = ("Valid side, strict: Hypothesis draws RunSpecs over continuous tasks (single / multi / multi-objective, min "
        "and max, dimension 1..8, every bound class) x the full config generator (cycle budgets from 1, population "
        "1x..3x, algorithm parameters perturbed within what the validators accept) x seeds x modes; any exception out "
        "of optimize() is a failure keyed (optimizer, exception type, innermost pyvolutionary file:function) and a "
        "result must have evolution, rates and best_solution populated. Valid side, per pair: for every (optimizer, "
        "integer-coded encoding) pair whose committed baseline pass rate is >= 90% ('works today'), 12 generated "
        "serial cases, and (thorough: every optimizer; quick: one optimizer in seven, rotating with VERIF_SEED) 6 thread-mode and 6 process-mode cases per pair judged against the pooled baseline; violated only if ALL cases of a pair and mode fail. Invalid side: generated invalid calls (no configuration, unknown mode "
        "strings, workers <= 0, weight/objective count mismatch both ways, negative weights, inverted / equal / "
        "length-mismatched bounds, n_vars <= 0) must raise ValueError (ValidationError is one) with the step counter "
        "still at 0. Non-trivial = completed strict run with max_cycles == 1, dimension 1, population != 1x, a max "
        "task or a perturbed parameter, or any rejected invalid call; distinct = SHA-256 of the case.")
ASSUMPTIONS = ["exception key granularity (optimizer, type, file:function) - two defects in one function with the same "
               "exception type share a key", "per-pair baseline table baselines/c06_pairs.json measured on the repaired "
               "tree", "watchdog expiry is inconclusive, not a violation"]
BUDGET = {"quick": 30, "thorough": 500}
PAIR_N = {"quick": 12, "thorough": 40}
INVALID = {"quick": 400, "thorough": 4000}
INT_ENCODINGS = ("discrete", "discrete_multi", "binary", "mixed", "permutation")
PAIRS_FILE = os.path.join(VERIF_ROOT, "baselines", "c06_pairs.json")


def strict_strategy(optimizer, tier):
    return strategies.run_spec(
        optimizer,
        task=strategies.task_spec(encodings=strategies.CONTINUOUS_ENCODINGS),
        config=strategies.config_spec(optimizer, max_cycles=(1, 8 if tier == "quick" else 25), perturb=0.3),
        modes=("serial",) * 14 + ("thread", "process"))


def judge_strict(spec, obs):
    name = spec["optimizer"]
    vio = []
    if obs.outcome == "exc":
        et, where = obs.exc_key
        if et == "NonMemberArgument":
            return [], False, ["c05_finding_in_worker"]       # the instrumented objective's own report (C05)
        vio.append((f"C06|{name}|{et}|{where}", obs.exc_text))
        return vio, False, []
    res = obs.result
    if not res.evolution or not res.rates or res.best_solution is None:
        vio.append((f"C06|{name}|incomplete-result", f"evolution={len(res.evolution)} rates={len(res.rates)} "
                                                     f"best={res.best_solution is not None}"))
    cfg = spec["config"]
    base = registry.load()[name]["params"]
    perturbed = any(k not in registry.BASE_FIELDS for k in cfg) and not obs.repaired
    dim = len(obs.task.get_variables())
    nt = (cfg["max_cycles"] == 1 or dim == 1 or cfg["population_size"] != base["population_size"]
          or spec["task"]["minmax"] == "max" or perturbed)
    labels = [f"dim:{min(dim, 4)}{'+' if dim >= 4 else ''}"]
    if cfg["max_cycles"] == 1:
        labels.append("max_cycles=1")
    if perturbed:
        labels.append("perturbed_parameters")
    return vio, nt, labels


# ---------------------------------------------------------------------------------------------------------
# invalid calls
# ---------------------------------------------------------------------------------------------------------
@st.composite
def invalid_case(draw):
    optimizer = draw(st.sampled_from(registry.names()))
    kind = draw(st.sampled_from(["no_config", "bad_mode", "bad_workers", "weights_more", "weights_fewer",
                                 "weights_scalar_objective", "vector_without_weights", "negative_weights",
                                 "inverted_bounds", "equal_bounds", "len_mismatch", "n_vars"]))
    task = draw(strategies.task_spec(encodings=("cont_multi", "multi_objective", "cont_singles"), max_dim=4,
                                     classes=("sym", "pos", "int")))
    case = {"kind": kind, "optimizer": optimizer, "task": task, "mode": None, "workers": None,
            "config": {"population_size": registry.load()[optimizer]["params"]["population_size"], "max_cycles": 2,
                       "fitness_error": None, "early_stopping": None}}
    terms = task["objective"]["terms"]
    if kind == "bad_mode":
        case["mode"] = draw(st.one_of(
            st.sampled_from(["Serial", "THREAD", "Process", "parallel", "sequential", "", " serial", "threads",
                             "processes", "swarm"]),
            st.text(alphabet="abcdefghijklmnopqrstuvwxyz_", min_size=1, max_size=8).filter(
                lambda s: s not in ("serial", "thread", "process"))))
    elif kind == "bad_workers":
        case["workers"] = draw(st.sampled_from([0, -1, -4, -100]))
        case["mode"] = draw(st.sampled_from([None, "serial", "thread", "process"]))
    elif kind in ("weights_more", "weights_fewer"):
        k = draw(st.integers(2, 3))
        task["objective"]["terms"] = [terms[0]] * k
        task["objective"]["as_list"] = True
        n = k + draw(st.integers(1, 2)) if kind == "weights_more" else draw(st.integers(1, k - 1))
        task["weights"] = [1.0] * n
        case["mode"] = draw(st.sampled_from([None, "thread", "process"]))
    elif kind == "weights_scalar_objective":
        task["objective"]["terms"] = [terms[0]]
        task["objective"]["as_list"] = False
        task["weights"] = [1.0] * draw(st.integers(2, 3))
        task["objective"]["force_scalar"] = True
    elif kind == "vector_without_weights":
        task["objective"]["terms"] = [terms[0]] * draw(st.integers(2, 3))
        task["objective"]["as_list"] = True
        task["weights"] = None
    elif kind == "negative_weights":
        k = max(2, len(terms))
        task["objective"]["terms"] = (terms * k)[:k]
        w = [draw(st.sampled_from([0.0, 0.5, 1.0])) for _ in range(k)]
        w[draw(st.integers(0, k - 1))] = -draw(st.sampled_from([1e-9, 0.5, 1.0, 10.0]))
        task["weights"] = w
    elif kind in ("inverted_bounds", "equal_bounds", "len_mismatch"):
        v = task["variables"][0]
        if "lower_bounds" in v:
            j = draw(st.integers(0, len(v["lower_bounds"]) - 1))
            if kind == "inverted_bounds":
                v["lower_bounds"][j], v["upper_bounds"][j] = v["upper_bounds"][j], v["lower_bounds"][j]
            elif kind == "equal_bounds":
                v["upper_bounds"][j] = v["lower_bounds"][j]
            else:
                v["upper_bounds"] = v["upper_bounds"] + [v["upper_bounds"][-1] + 1.0]
        else:
            if kind == "len_mismatch":
                case["kind"] = kind = "inverted_bounds"
            if kind == "inverted_bounds":
                v["lower_bound"], v["upper_bound"] = v["upper_bound"], v["lower_bound"]
            else:
                v["upper_bound"] = v["lower_bound"]
    elif kind == "n_vars":
        task["variables"] = [{"type": "BinaryVariable", "name": "b", "n_vars": draw(st.integers(-3, 0))}]
    return case


def run_invalid(case):
    """-> violations"""
    kind, name = case["kind"], case["optimizer"]
    key = lambda what: f"C06|invalid|{kind}|{what}"  # noqa: E731
    reg = registry.load()[name]
    observe._LOG.steps = 0
    try:
        try:
            task = tasks.build_task(case["task"])
        except ValidationError:
            if kind in ("negative_weights", "inverted_bounds", "equal_bounds", "len_mismatch", "n_vars"):
                return []
            raise
        if kind in ("negative_weights", "inverted_bounds", "equal_bounds", "len_mismatch", "n_vars"):
            return [(key("accepted"), f"{kind}: the definition was accepted: {json.dumps(case['task'])[:200]}")]
        if kind == "no_config":
            opt = reg["cls"]()
        else:
            opt, _, _ = tasks.build_optimizer(name, case["config"])
        kwargs = {}
        if case["mode"] is not None:
            kwargs["mode"] = case["mode"]
        if case["workers"] is not None:
            kwargs["workers"] = case["workers"]
        tasks.REC.reset(raise_in_workers=False)
        with observe.instrumented(type(opt)), contextlib.redirect_stdout(io.StringIO()), observe.watchdog(120):
            opt.optimize(task, **kwargs)
    except ValueError:
        if observe._LOG.steps != 0:
            return [(key("rejected-late"), f"{name}: ValueError only after {observe._LOG.steps} cycle(s) had run")]
        return []
    except observe.CaseTimeout:
        raise
    except Exception as e:  # noqa: BLE001
        return [(key("wrong-exception"), f"{name}: {type(e).__name__}: {e}"[:300])]
    return [(key("accepted"), f"{name}: optimize() returned a result (mode={case['mode']!r}, workers="
                              f"{case['workers']!r}, weights={case['task'].get('weights')!r})")]


# ---------------------------------------------------------------------------------------------------------
# per (optimizer, integer encoding) pair
# ---------------------------------------------------------------------------------------------------------
def load_pairs():
    if not os.path.exists(PAIRS_FILE):
        return {}
    with open(PAIRS_FILE) as fh:
        return json.load(fh)["pairs"]


def pair_strategy(optimizer, enc, mode="serial"):
    return strategies.run_spec(
        optimizer, task=strategies.task_spec(encodings=(enc,)),
        config=strategies.config_spec(optimizer, max_cycles=(2, 6) if mode == "serial" else (1, 3), perturb=0.0,
                                      pop_mults=(1,), stopping=False, pop_offsets=(0,)),
        modes=(mode,), max_workers=4)


POOL_N = 6            # pooled cases per (optimizer, encoding, mode); all must fail for a violation
POOL_ROTATION = 7     # quick tier: one optimizer in seven (rotating with VERIF_SEED) gets the pooled pair cases


def run_pair_shard(shard, tier, seed):
    name = shard["optimizer"]
    ctx = runner.Ctx(ID, shard["name"], max_samples=1)
    pairs = load_pairs()
    rates = {}
    for enc in INT_ENCODINGS:
        base = pairs.get(f"{name}|{enc}")
        outcomes = []

        def case(spec):
            obs = observe.run(spec, keep_snaps=False, snapshots_cfg=False)
            if obs.outcome == "timeout":
                ctx.inconclusive += 1
                return
            ok = obs.ok
            outcomes.append((ok, spec, None if ok else "|".join(obs.exc_key)))
            ctx.case(spec, ok, [f"pair:{enc}:{'ok' if ok else 'raised'}"])

        sub = runner.Ctx(ID, shard["name"] + ":" + enc)
        sub.case = ctx.case
        runner.drive(ctx, pair_strategy(name, enc), case, PAIR_N[tier], runner.mix_seed(seed, enc), shrink=False,
                     max_rounds=1)
        n_ok = sum(1 for o in outcomes if o[0])
        rates[enc] = [n_ok, len(outcomes)]
        _judge_pair(ctx, name, enc, "serial", base, outcomes, 12)
        if shard.get("pooled"):
            for mode in ("thread", "process"):
                base_m = (base or {}).get(mode)
                outcomes = []
                runner.drive(ctx, pair_strategy(name, enc, mode), case, POOL_N, runner.mix_seed(seed, enc, mode),
                             shrink=False, max_rounds=1)
                rates[f"{enc}:{mode}"] = [sum(1 for o in outcomes if o[0]), len(outcomes)]
                _judge_pair(ctx, name, enc, mode, base_m, outcomes, POOL_N)
    ctx.extra["pair_pass_counts"] = {f"{name}|{e}": f"{r[0]}/{r[1]}" for e, r in rates.items()}
    return ctx.to_dict()


def _judge_pair(ctx, name, enc, mode, base, outcomes, need):
    n_ok = sum(1 for o in outcomes if o[0])
    if base is None or base.get("rate", 0) < 0.9 or len(outcomes) < need or n_ok != 0:
        return
    key = f"C06|pair|{name}|{enc}|wholesale" if mode == "serial" else f"C06|pair|{name}|{enc}|{mode}|wholesale"
    if key in ctx.known:
        ctx.known_hits[key] += 1
        return
    payload = {"pair": [name, enc], "mode": mode, "specs": [o[1] for o in outcomes]}
    detail = (f"pair worked in {base['ok']}/{base['n']} baseline runs ({mode} mode) but all {len(outcomes)} generated "
              f"cases now fail ({sorted({o[2] for o in outcomes})[:3]})")
    path = runner.write_replay(ID, ctx.shard + ":" + enc + ":" + mode, payload, [(key, detail)])
    ctx.violations.append({"key": key, "detail": detail, "replay": path})


# ---------------------------------------------------------------------------------------------------------
def shards(tier):
    out = campaign.optimizer_shards(BUDGET[tier], extra={"kind": "strict"})
    try:
        rot = int(os.environ.get("VERIF_SEED", "1")) % POOL_ROTATION
    except ValueError:
        rot = 1
    for i, sh in enumerate(campaign.optimizer_shards(PAIR_N[tier])):
        pooled = tier == "thorough" or i % POOL_ROTATION == rot
        out.append(dict(sh, name="pairs:" + sh["name"], kind="pairs", pooled=pooled))
    for i in range(8):
        out.append({"name": f"invalid-{i}", "kind": "invalid", "n": INVALID[tier] // 8})
    return out


OKW = {"keep_snaps": False, "snapshots_cfg": False}


def run_shard(shard, tier, seed):
    if shard["kind"] == "strict":
        return campaign.run_shard(ID, shard, seed, strict_strategy(shard["optimizer"], tier), judge_strict,
                                  observe_kwargs=OKW, max_rounds=8)
    if shard["kind"] == "pairs":
        return run_pair_shard(shard, tier, seed)
    ctx = runner.Ctx(ID, shard["name"])

    def case(c):
        try:
            vio = run_invalid(c)
        except observe.CaseTimeout:
            ctx.inconclusive += 1
            return
        ctx.case(c, True, ["invalid:" + c["kind"]])
        ctx.judge(c, vio)

    runner.drive(ctx, invalid_case(), case, shard["n"], seed)
    return ctx.to_dict()


def replay(payload):
    if "kind" in payload:
        return run_invalid(payload)
    if "pair" in payload:
        oks = [observe.run(s, keep_snaps=False, snapshots_cfg=False).ok for s in payload["specs"]]
        if not any(oks):
            name, enc = payload["pair"]
            mode = payload.get("mode", "serial")
            key = f"C06|pair|{name}|{enc}|wholesale" if mode == "serial" else f"C06|pair|{name}|{enc}|{mode}|wholesale"
            return [(key, f"all {len(oks)} recorded cases still fail")]
        return []
    return campaign.replay(payload, judge_strict, OKW)
