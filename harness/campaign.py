"""Run-level campaigns shared by C01, C02, C03, C05, C06, C10, C15, C17 and the observational half of C04:
one Hypothesis test per optimizer (so that one shallow defect in one optimizer cannot end the campaign for
the other 83), each case = one complete optimize() under outside-only instrumentation."""
from . import observe, oracles, registry, runner, strategies


def optimizer_shards(per_optimizer, names=None, extra=None):
    out = []
    for n in (names if names is not None else registry.names()):
        sh = {"name": n, "optimizer": n, "n": per_optimizer}
        if extra:
            sh.update(extra)
        out.append(sh)
    return out


class _SkipDecoded(Exception):
    pass


def common_labels(spec, obs):
    t = spec["task"]
    labs = ["enc:" + t.get("encoding", oracles.encoding_of(t)), "minmax:" + t["minmax"],
            "mode:" + (spec.get("mode") or "default-serial"), "outcome:" + obs.outcome]
    ps = registry.load()[spec["optimizer"]]["params"]["population_size"]
    labs.append("pop:x%.1f" % (spec["config"]["population_size"] / ps))
    if obs.repaired:
        labs.append("config_repaired")
    if spec.get("warmup") is not None:
        labs.append("reused_instance")
    if t.get("naming"):
        labs.append("names:" + t["naming"])
    if spec.get("configure"):
        labs.append("configured-by:set_config_parameters(" + spec["configure"] + ")")
    if t.get("weights") is not None and t.get("encoding") != "multi_objective":
        labs.append("weighted-objectives-over:" + t.get("encoding", "?"))
    if spec.get("debug"):
        labs.append("debug")
    if t.get("seed") is None:
        labs.append("unseeded")
    if t["objective"].get("returns"):
        labs.append("objective-returns:" + t["objective"]["returns"])
    if obs.outcome == "exc":
        labs.append("raised:" + obs.exc_key[0])
    return labs


def run_shard(prop, shard, seed, strategy, judge, *, observe_kwargs=None, shrink=True, max_rounds=4):
    """judge(spec, obs) -> (violations [(key, detail)], nontrivial: bool, labels: list)"""
    ctx = runner.Ctx(prop, shard["name"])
    okw = observe_kwargs or {}

    def case(spec):
        if ctx.inconclusive >= 3:
            # three watchdog expiries in this shard: stop paying for it (inconclusive, never a violation)
            ctx.extra["shards_cut_short_by_watchdog"] = 1
            return
        obs = observe.run(spec, **okw)
        if obs.outcome == "timeout":
            ctx.inconclusive += 1
            return
        violations, nontrivial, labels = judge(spec, obs)
        ctx.case(spec, nontrivial, list(labels) + common_labels(spec, obs))
        ctx.judge(spec, violations)

    runner.drive(ctx, strategy, case, shard["n"], seed, shrink=shrink, max_rounds=max_rounds)
    return ctx.to_dict()


def replay(spec, judge, observe_kwargs=None):
    obs = observe.run(spec, **(observe_kwargs or {}))
    if obs.outcome == "timeout":
        raise registry.HarnessError("replay timed out (inconclusive)")
    return judge(spec, obs)[0]


# ---------------------------------------------------------------------------------------------------------
# oracles over one Observation
# ---------------------------------------------------------------------------------------------------------
def all_reported(obs):
    """yield (where, agent) for every reported agent"""
    res = obs.result
    for k, gen in enumerate(res.evolution):
        for i, a in enumerate(gen.agents):
            yield f"evolution[{k}][{i}]", a
    if res.best_solution is not None:
        yield "best_solution", res.best_solution


def membership_violations(spec, obs, prop="C01"):
    coords = oracles.flat_coords(spec["task"])
    out, seen = [], set()
    n_agents = 0
    touched = False
    for where, a in all_reported(obs):
        n_agents += 1
        bad = oracles.member(coords, a.position)
        if bad is not None:
            key = f"{prop}|{spec['optimizer']}|{bad[0]}"
            if key not in seen:
                seen.add(key)
                out.append((key, f"{where}: coordinate {bad[1]}: {bad[2]}"))
        elif not touched and oracles.on_bound(coords, a.position):
            touched = True
    return out, n_agents, touched


def _twin(spec):
    from . import tasks
    return tasks.build_task(spec["task"])


def cost_violations(spec, obs, prop="C02"):
    """C02: cost == objective(position) in the user's sign (checker's own evaluation), == objective of the
    decoded solution, fitness == documented function of the reported cost."""
    t = spec["task"]
    coords = oracles.flat_coords(t)
    twin = _twin(spec)
    out, seen = [], set()
    costs = set()
    n = 0
    skipped = 0

    def add(kind, detail):
        key = f"{prop}|{spec['optimizer']}|{kind}"
        if key not in seen:
            seen.add(key)
            out.append((key, detail))

    for where, a in all_reported(obs):
        if oracles.member(coords, a.position) is not None:
            skipped += 1          # C01's business
            continue
        n += 1
        costs.add(repr(float(a.cost)))
        c_true = oracles.truth_from_position(t, a.position)
        if not oracles.close(float(a.cost), float(c_true)):
            add("cost", f"{where}: reported cost {a.cost!r}, objective at the reported position {c_true!r}")
        try:
            if t.get("naming"):
                raise _SkipDecoded   # names are not distinct: the dictionary cannot hold one entry per variable
            decoded = twin.transform_solution(a.position)
            c_dec = oracles.truth_from_decoded(t, decoded)
            if not oracles.close(float(a.cost), float(c_dec)):
                add("decoded", f"{where}: reported cost {a.cost!r}, objective of transform_solution(position) "
                               f"{c_dec!r} ({decoded!r})"[:400])
        except _SkipDecoded:
            pass
        except Exception as e:  # noqa: BLE001 - a decoding failure on a member position is itself a disagreement
            add("decoded", f"{where}: transform_solution({a.position!r}) raised {type(e).__name__}: {e}"[:300])
        c = float(a.cost)
        if c == c:
            f = oracles.fitness_of(c)
            if not oracles.close(float(a.fitness), f, rel=1e-12):
                add("fitness", f"{where}: cost {c!r} -> fitness {a.fitness!r}, documented value {f!r}")
    return out, n, len(costs), skipped


def best_violations(spec, obs, prop="C03"):
    res = obs.result
    last = res.evolution[-1].agents
    b = res.best_solution
    mm = spec["task"]["minmax"]
    out = []
    key = f"{prop}|{spec['optimizer']}|"
    if b is None:
        return [(key + "missing", "best_solution is None")], False, False
    if len(last) == 0:
        return [(key + "empty-final-generation", "last generation is empty")], False, False
    bp = observe.plain_position(b.position)
    if not any(observe.plain_position(a.position) == bp and (a.cost == b.cost or (a.cost != a.cost and b.cost != b.cost))
               for a in last):
        out.append((key + "not-in-last-generation",
                    f"best_solution (cost {b.cost!r}) is not an agent of the last generation"))
    costs = [a.cost for a in last]
    better = [c for c in costs if (c < b.cost if mm == "min" else c > b.cost)]
    if better:
        out.append((key + "not-optimal", f"{mm} task: best_solution.cost={b.cost!r} but the last generation "
                                         f"holds {better[0]!r}"))
    opt = min(costs) if mm == "min" else max(costs)
    ties = sum(1 for c in costs if c == opt) > 1
    distinct = len(set(costs)) >= 2
    return out, distinct, ties


def size_violations(spec, obs, prop="C10"):
    ps = obs.config.population_size
    name = spec["optimizer"]
    out = []
    sizes = [len(g.agents) for g in obs.result.evolution]
    for k, s in enumerate(sizes):
        if s < 1 or s > ps:
            out.append((f"{prop}|{name}|out-of-range", f"generation {k} has {s} agents, population_size={ps}"))
            break
    if name not in registry.VARIABLE_POPULATION:
        for k, s in enumerate(sizes):
            if s != ps:
                out.append((f"{prop}|{name}|not-conserved", f"generation {k} has {s} agents, population_size={ps}"))
                break
    elif name == "BeeColonyOptimization" and len(set(sizes)) > 1:
        out.append((f"{prop}|{name}|not-constant", f"sizes {sizes}"))
    return out


def call_violations(spec, obs, prop="C05"):
    out, seen = [], set()
    for kind, coord, detail, where in obs.bad_calls:
        key = f"{prop}|{spec['optimizer']}|{kind}|{where}"
        if key not in seen:
            seen.add(key)
            out.append((key, f"objective_function called with a non-member: coordinate {coord}: {detail}"))
    return out


def monotone_violations(spec, obs, prop="C17"):
    mm = spec["task"]["minmax"]
    bests = []
    for g in obs.result.evolution:
        cs = [a.cost for a in g.agents]
        bests.append(min(cs) if mm == "min" else max(cs))
    out = []
    if any(b != b for b in bests):
        return [], False, bests          # NaN costs: "best" is not defined; nothing to judge
    for k, (b1, b2) in enumerate(zip(bests, bests[1:])):
        if (b2 > b1) if mm == "min" else (b2 < b1):
            out.append((f"{prop}|{spec['optimizer']}|best-lost",
                        f"{mm} task: best cost of generation {k} is {b1!r}, of generation {k + 1} is {b2!r}"))
            break
    b = obs.result.best_solution
    ever = min(bests) if mm == "min" else max(bests)
    if not out and b is not None and b.cost != ever:
        out.append((f"{prop}|{spec['optimizer']}|best-not-best-ever", f"best_solution.cost={b.cost!r}, best ever "
                                                                       f"recorded {ever!r}"))
    improved = any(((b2 < b1) if mm == "min" else (b2 > b1)) for b1, b2 in zip(bests, bests[1:]))
    return out, improved, bests
