"""Run-level campaigns shared by C01, C02, C03, C05, C06, C10, C15, C17 and the observational half of C04:
one Hypothesis test per optimizer (so that one shallow defect in one optimizer cannot end the campaign for
the other 83), each case = one complete optimize() under outside-only instrumentation."""
from . import observe, oracles, registry, runner, strategies


def optimizer_shards(per_optimizer, names=None, extra=None):
    out = []
    for n in (names if names is not None else registry.names()):
        sh = {"name": n, "optimizer": n, "n": per_optimizer}
        if extra:
            sh.update(extra)
        out.append(sh)
    return out


def common_labels(spec, obs):
    t = spec["task"]
    labs = ["enc:" + t.get("encoding", oracles.encoding_of(t)), "minmax:" + t["minmax"],
            "mode:" + (spec.get("mode") or "default-serial"), "outcome:" + obs.outcome]
    ps = registry.load()[spec["optimizer"]]["params"]["population_size"]
    labs.append("pop:x%.1f" % (spec["config"]["population_size"] / ps))
    if obs.repaired:
        labs.append("config_repaired")
    if obs.outcome == "exc":
        labs.append("raised:" + obs.exc_key[0])
    return labs


def run_shard(prop, shard, seed, strategy, judge, *, observe_kwargs=None, shrink=True, max_rounds=4):
    """judge(spec, obs) -> (violations [(key, detail)], nontrivial: bool, labels: list)"""
    ctx = runner.Ctx(prop, shard["name"])
    okw = observe_kwargs or {}

    def case(spec):
        obs = observe.run(spec, **okw)
        if obs.outcome == "timeout":
            ctx.inconclusive += 1
            return
        violations, nontrivial, labels = judge(spec, obs)
        ctx.case(spec, nontrivial, list(labels) + common_labels(spec, obs))
        ctx.judge(spec, violations)

    runner.drive(ctx, strategy, case, shard["n"], seed, shrink=shrink, max_rounds=max_rounds)
    return ctx.to_dict()


def replay(spec, judge, observe_kwargs=None):
    obs = observe.run(spec, **(observe_kwargs or {}))
    if obs.outcome == "timeout":
        raise registry.HarnessError("replay timed out (inconclusive)")
    return judge(spec, obs)[0]


# ---------------------------------------------------------------------------------------------------------
# oracles over one Observation
# ---------------------------------------------------------------------------------------------------------
def all_reported(obs):
    """yield (where, agent) for every reported agent"""
    res = obs.result
    for k, gen in enumerate(res.evolution):
        for i, a in enumerate(gen.agents):
            yield f"evolution[{k}][{i}]", a
    if res.best_solution is not None:
        yield "best_solution", res.best_solution


def membership_violations(spec, obs, prop="C01"):
    coords = oracles.flat_coords(spec["task"])
    out, seen = [], set()
    n_agents = 0
    touched = False
    for where, a in all_reported(obs):
        n_agents += 1
        bad = oracles.member(coords, a.position)
        if bad is not None:
            key = f"{prop}|{spec['optimizer']}|{bad[0]}"
            if key not in seen:
                seen.add(key)
                out.append((key, f"{where}: coordinate {bad[1]}: {bad[2]}"))
        elif not touched and oracles.on_bound(coords, a.position):
            touched = True
    return out, n_agents, touched
