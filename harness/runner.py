"""Tiering, sharding over processes, seeds, known-findings matching, evidence / replay writers, exit codes."""
import collections
import concurrent.futures
import hashlib
import importlib
import json
import os
import sys
import time
import traceback

from . import REPO, VERIF_ROOT
from .registry import HarnessError

# Evidence and replay files of the registered commands describe /repo itself.  Sensitivity experiments point VERIF_REPO
# at a scratch copy: their output must not overwrite the committed evidence, so it goes to a scratch directory.
_ALT = os.path.realpath(REPO) != "/repo"
EVIDENCE_DIR = os.environ.get("VERIF_EVIDENCE_DIR") or (
    os.path.join("/tmp", "verif_alt_" + os.path.basename(REPO.rstrip("/")), "evidence") if _ALT
    else os.path.join(VERIF_ROOT, "evidence"))
REPLAY_OUT = (os.path.join("/tmp", "verif_alt_" + os.path.basename(REPO.rstrip("/")), "replays") if _ALT
              else os.path.join(VERIF_ROOT, "replays", "out"))
REPLAY_REGRESS = os.path.join(VERIF_ROOT, "replays", "regress")
KNOWN_FILE = os.path.join(VERIF_ROOT, "known_findings.json")
WORKERS = int(os.environ.get("VERIF_WORKERS", "16"))


def mix_seed(*parts):
    h = hashlib.sha256(repr(parts).encode()).digest()
    return int.from_bytes(h[:8], "big") % (2 ** 63)


def spec_hash(spec):
    return hashlib.sha256(json.dumps(spec, sort_keys=True, default=repr).encode()).hexdigest()[:16]


def load_known(prop):
    """open findings of this property: key -> entry.  The file is never written at run time."""
    if not os.path.exists(KNOWN_FILE):
        return {}
    with open(KNOWN_FILE) as fh:
        data = json.load(fh)
    return {e["key"]: e for e in data.get("open", []) if e["property"] == prop}


class PropertyViolation(AssertionError):
    pass


class Ctx:
    """Per-shard accumulator; also decides whether a violation is an open known finding (counted and
    excluded, the campaign continues) or new (the case fails, is shrunk, and reported)."""

    def __init__(self, prop, shard_name, known=None, max_samples=3):
        self.prop = prop
        self.shard = shard_name
        self.known = load_known(prop) if known is None else known
        self.also_known = set()          # keys already reported by this shard (so the search continues)
        self.evaluations = 0
        self.shrink_evals = 0
        self.nontrivial = set()
        self.labels = collections.Counter()
        self.samples = []
        self.max_samples = max_samples
        self.known_hits = collections.Counter()
        self.violations = []             # dicts: key, replay, detail
        self.errors = []
        self.inconclusive = 0
        self.failing = None              # (payload, [(key, detail)..]) of the smallest failing case so far
        self.shrinking = False
        self.extra = {}

    # -- bookkeeping ------------------------------------------------------------------------------------
    def case(self, payload, nontrivial, labels=(), sample=None):
        if self.shrinking:
            self.shrink_evals += 1
            return
        self.evaluations += 1
        for lab in labels:
            self.labels[lab] += 1
        if nontrivial:
            h = spec_hash(payload)
            if h not in self.nontrivial:
                self.nontrivial.add(h)
                if len(self.samples) < self.max_samples:
                    self.samples.append(sample if sample is not None else payload)

    def judge(self, payload, violations):
        """violations: list of (key, detail).  Raises PropertyViolation for a key that is not an open finding."""
        unknown = []
        for key, detail in violations:
            if key in self.known:
                if not self.shrinking:
                    self.known_hits[key] += 1
            elif key in self.also_known:
                pass
            else:
                unknown.append((key, detail))
        if unknown:
            self.failing = (payload, unknown)
            self.shrinking = True
            write_replay(self.prop, self.shard, payload, unknown)
            raise PropertyViolation(f"{unknown[0][0]}: {unknown[0][1]}")

    def to_dict(self):
        return {
            "shard": self.shard, "evaluations": self.evaluations, "shrink_evals": self.shrink_evals,
            "nontrivial": sorted(self.nontrivial), "labels": dict(self.labels), "samples": self.samples,
            "known_hits": dict(self.known_hits), "violations": self.violations, "errors": self.errors,
            "inconclusive": self.inconclusive, "extra": self.extra,
        }


def replay_path(prop, shard, key):
    tag = hashlib.sha256(f"{shard}|{key}".encode()).hexdigest()[:10]
    return os.path.join(REPLAY_OUT, f"{prop}-{tag}.json")


def write_replay(prop, shard, payload, unknown):
    os.makedirs(REPLAY_OUT, exist_ok=True)
    path = replay_path(prop, shard, unknown[0][0])
    doc = {"property": prop, "shard": shard, "key": unknown[0][0],
           "violations": [{"key": k, "detail": d} for k, d in unknown], "payload": payload}
    tmp = path + f".tmp{os.getpid()}"
    with open(tmp, "w") as fh:
        json.dump(doc, fh, indent=1, default=repr)
    os.replace(tmp, path)
    return path


# ---------------------------------------------------------------------------------------------------------
# Hypothesis driver
# ---------------------------------------------------------------------------------------------------------
def hyp_settings(max_examples, shrink=True, stateful_steps=None):
    from hypothesis import HealthCheck, Phase, Verbosity, settings
    phases = [Phase.generate] + ([Phase.shrink] if shrink else [])
    kw = dict(max_examples=max_examples, deadline=None, database=None, derandomize=False,
              suppress_health_check=list(HealthCheck), report_multiple_bugs=False, phases=phases,
              verbosity=Verbosity.quiet, print_blob=False)
    if stateful_steps is not None:
        kw["stateful_step_count"] = stateful_steps
    return settings(**kw)


def drive(ctx, strategy, case_fn, max_examples, seed, shrink=True, max_rounds=4, max_shrink_evals=400):
    """Run `case_fn(payload)` on `max_examples` generated payloads.  A failing case is shrunk (bounded), its
    minimal reproduction written as the replay file; the key is then excluded so that the search continues
    and further root causes in the same shard are enumerated (up to `max_rounds`)."""
    import hypothesis
    from hypothesis import given

    remaining = max_examples
    for rnd in range(max_rounds):
        if remaining <= 0:
            break
        ctx.failing, ctx.shrinking, ctx.shrink_evals_round = None, False, 0
        before = ctx.evaluations
        start_shrink = ctx.shrink_evals

        def wrapped(payload):
            if ctx.shrinking and ctx.shrink_evals - start_shrink > max_shrink_evals:
                ctx.shrink_evals += 1
                return                      # shrink budget used up: stop paying for candidates
            case_fn(payload)

        test = given(strategy)(wrapped)
        test = hyp_settings(remaining, shrink=shrink)(test)
        test = hypothesis.seed(mix_seed(seed, ctx.prop, ctx.shard, rnd))(test)
        try:
            test()
        except PropertyViolation:
            pass
        except HarnessError:
            raise
        except BaseException as e:  # noqa: BLE001 - Flaky after an exhausted shrink budget, or a harness bug
            if ctx.failing is None:
                ctx.errors.append(f"{type(e).__name__}: {e}"[:500] + "\n" + traceback.format_exc()[-1500:])
                return
        if ctx.failing is None:
            break
        payload, unknown = ctx.failing
        path = write_replay(ctx.prop, ctx.shard, payload, unknown)
        for key, detail in unknown:
            ctx.violations.append({"key": key, "detail": str(detail)[:500], "replay": path})
            ctx.also_known.add(key)
        ctx.shrinking = False
        remaining -= max(1, ctx.evaluations - before)
    ctx.shrinking = False


# ---------------------------------------------------------------------------------------------------------
# code reach of the model layer (line / branch coverage of named library files while a shard runs)
# ---------------------------------------------------------------------------------------------------------
class Reach:
    """with Reach(ctx, ["models.py"]): ...   -> ctx.extra["reach"] = {file: {"lines": [...], "arcs": [...]}}.
    Measurement only: it never decides anything, and is skipped (recorded as unavailable) when the `coverage`
    package is not importable in the interpreter that runs the checks."""

    def __init__(self, ctx, files):
        self.ctx, self.files, self.cov = ctx, files, None

    def __enter__(self):
        try:
            import coverage
            paths = [os.path.join(REPO, "pyvolutionary", f) for f in self.files]
            self.cov = coverage.Coverage(data_file=None, branch=True, include=paths, config_file=False)
            self.cov.start()
        except Exception as e:  # noqa: BLE001
            self.cov = None
            self.ctx.extra["reach"] = {"unavailable": f"{type(e).__name__}: {e}"[:200]}
        return self

    def __exit__(self, *exc):
        if self.cov is None:
            return False
        try:
            self.cov.stop()
            data = self.cov.get_data()
            out = {}
            for f in data.measured_files():
                _, statements, _, missing, _ = self.cov.analysis2(f)
                body = _function_body_lines(f)           # import-time lines ran before the measurement began
                statements = [ln for ln in statements if ln in body]
                out[os.path.basename(f)] = {"statements": len(statements),
                                            "functions": sorted(set(body.values())),
                                            "lines": sorted(ln for ln in set(statements) - set(missing)),
                                            "entered": sorted({body[ln] for ln in set(statements) - set(missing)}),
                                            "arcs": sorted([a, b] for a, b in (data.arcs(f) or []) if a > 0 and b > 0)}
            self.ctx.extra["reach"] = out
        except Exception as e:  # noqa: BLE001
            self.ctx.extra["reach"] = {"unavailable": f"{type(e).__name__}: {e}"[:200]}
        return False


def _function_body_lines(path):
    """line -> qualified function name, for every line inside a function body of the file"""
    import ast
    with open(path) as fh:
        tree = ast.parse(fh.read())
    out = {}

    def walk(node, prefix):
        for ch in ast.iter_child_nodes(node):
            if isinstance(ch, (ast.FunctionDef, ast.AsyncFunctionDef)):
                name = f"{prefix}{ch.name}"
                for st in ch.body:
                    for ln in range(st.lineno, (st.end_lineno or st.lineno) + 1):
                        out[ln] = name
                walk(ch, name + ".")
            elif isinstance(ch, ast.ClassDef):
                walk(ch, f"{prefix}{ch.name}.")
            else:
                walk(ch, prefix)
    walk(tree, "")
    return out


def merge_reach(results, coverage):
    """union of the per-shard reach records -> coverage["code_reach"] (counts + the lines never executed)"""
    merged, note = {}, None
    for r in results:
        reach = (r.get("extra") or {}).get("reach") or {}
        if "unavailable" in reach:
            note = reach["unavailable"]
            continue
        for f, d in reach.items():
            m = merged.setdefault(f, {"statements": d["statements"], "lines": set(), "arcs": set(),
                                      "functions": set(d["functions"]), "entered": set()})
            m["lines"].update(d["lines"])
            m["entered"].update(d["entered"])
            m["arcs"].update(tuple(a) for a in d["arcs"])
    if not merged:
        coverage["code_reach"] = {"unavailable": note or "no data"}
        return
    coverage["code_reach"] = {f: {"function_body_statements": m["statements"], "lines_executed": len(m["lines"]),
                                  "branch_arcs_executed": len(m["arcs"]),
                                  "functions_entered": len(m["entered"]), "functions": len(m["functions"]),
                                  "functions_never_entered": sorted(m["functions"] - m["entered"])}
                              for f, m in sorted(merged.items())}
    coverage["code_reach_note"] = ("measured with coverage.py while the shards ran (function bodies only: module and "
                                   "class level lines run at import, before the measurement); reach is reported, it "
                                   "decides nothing")


def _warm_hypothesis_constants():
    """Hypothesis biases its draws towards constants found in the source of the local modules (harness, checks,
    pyvolutionary) and caches them per source file under .hypothesis/constants.  In a fresh checkout sixteen worker
    processes would write and read that cache concurrently and some would parse a half-written file, so the case
    sample of a first run would differ from every later one.  Collecting the constants once, here, before the workers
    are forked makes the sample a function of the code and VERIF_SEED only."""
    try:
        from hypothesis.internal.conjecture import providers
        providers._get_local_constants()
    except Exception:  # noqa: BLE001 - an internal of the library: without it runs are still sound, only less repeatable
        pass


# ---------------------------------------------------------------------------------------------------------
# main
# ---------------------------------------------------------------------------------------------------------
def _shard_entry(module_name, shard, tier, seed):
    t0 = time.time()
    try:
        mod = importlib.import_module(module_name)
        res = mod.run_shard(shard, tier, seed)
        res["wall_s"] = time.time() - t0
        return res
    except HarnessError as e:
        return {"shard": shard.get("name"), "errors": [f"HarnessError: {e}"], "evaluations": 0}
    except BaseException as e:  # noqa: BLE001
        return {"shard": shard.get("name"), "evaluations": 0,
                "errors": [f"{type(e).__name__}: {e}\n{traceback.format_exc()[-2000:]}"]}


def regress_files(prop):
    if not os.path.isdir(REPLAY_REGRESS):
        return []
    return sorted(os.path.join(REPLAY_REGRESS, f) for f in os.listdir(REPLAY_REGRESS)
                  if f.startswith(prop + "-") and f.endswith(".json"))


def run_replay_file(mod, path, known):
    """-> list of (key, detail) not covered by an open finding"""
    with open(path) as fh:
        doc = json.load(fh)
    vs = mod.replay(doc["payload"])
    return [(k, d) for k, d in vs if k not in known]


def main(module_name, argv=None):
    argv = list(sys.argv[1:] if argv is None else argv)
    mod = importlib.import_module(module_name)
    prop = mod.ID
    tier = os.environ.get("VERIF_TIER", "quick")
    replay = None
    i = 0
    while i < len(argv):
        if argv[i] == "--tier":
            tier = argv[i + 1]; i += 2
        elif argv[i] == "--replay":
            replay = argv[i + 1]; i += 2
        else:
            i += 1
    if tier not in ("quick", "thorough"):
        tier = "quick"
    try:
        seed = int(os.environ.get("VERIF_SEED", "1"))
    except ValueError:
        seed = 1
    known = load_known(prop)

    if replay is not None:
        try:
            vs = run_replay_file(mod, replay, known)
        except Exception:  # noqa: BLE001
            traceback.print_exc()
            return 2
        for k, d in vs:
            print(f"  violated: {k}: {d}")
        if vs:
            print(f"VIOLATION property={prop} replay={replay}")
            return 1
        print(f"replay {replay}: property {prop} holds on this input")
        return 0

    t0 = time.time()
    os.makedirs(EVIDENCE_DIR, exist_ok=True)
    violations, errors = [], []

    # 1. committed minimal reproductions first (seconds)
    n_regress = 0
    for path in regress_files(prop):
        try:
            vs = run_replay_file(mod, path, known)
            n_regress += 1
        except Exception as e:  # noqa: BLE001
            errors.append(f"regress {path}: {type(e).__name__}: {e}")
            continue
        for k, d in vs:
            violations.append({"key": k, "detail": str(d)[:500], "replay": path})

    # 2. generated campaign, sharded
    try:
        shards = mod.shards(tier)
    except HarnessError as e:
        print(f"HARNESS-ERROR {e}")
        return 2
    results = []
    _warm_hypothesis_constants()
    if len(shards) == 1 or WORKERS <= 1:
        for sh in shards:
            results.append(_shard_entry(module_name, sh, tier, seed))
    else:
        with concurrent.futures.ProcessPoolExecutor(max_workers=min(WORKERS, len(shards))) as ex:
            futs = [ex.submit(_shard_entry, module_name, sh, tier, seed) for sh in shards]
            for sh, f in zip(shards, futs):
                try:
                    results.append(f.result())
                except BaseException as e:  # noqa: BLE001 - e.g. a worker killed
                    results.append({"shard": sh.get("name"), "evaluations": 0,
                                    "errors": [f"shard crashed: {type(e).__name__}: {e}"]})

    evaluations = sum(r.get("evaluations", 0) for r in results)
    nontrivial = set()
    labels = collections.Counter()
    known_hits = collections.Counter()
    samples = []
    inconclusive = 0
    extra = {}
    for r in results:
        nontrivial.update(r.get("nontrivial", []))
        labels.update(r.get("labels", {}))
        known_hits.update(r.get("known_hits", {}))
        inconclusive += r.get("inconclusive", 0)
        violations.extend(r.get("violations", []))
        errors.extend(r.get("errors", []))
        for k, v in (r.get("extra") or {}).items():
            if isinstance(v, (int, float)) and not isinstance(v, bool):
                extra[k] = extra.get(k, 0) + v
            elif isinstance(v, dict):
                d = extra.setdefault(k, {})
                for kk, vv in v.items():
                    d[kk] = d.get(kk, 0) + vv if isinstance(vv, (int, float)) else vv
            elif isinstance(v, list):
                extra.setdefault(k, [])
                if len(extra[k]) < 40:
                    extra[k].extend(v[: 40 - len(extra[k])])
            else:
                extra[k] = v
    # samples: spread over shards
    per = [list(r.get("samples", [])) for r in results]
    idx = 0
    while len(samples) < 6 and any(per):
        lst = per[idx % len(per)]
        if lst:
            samples.append(lst.pop(0))
        idx += 1
        if idx > 10 * len(per) + 10:
            break

    wall = time.time() - t0
    coverage = {
        "evaluations": evaluations,
        "distinct_nontrivial": len(nontrivial),
        "rule": mod.RULE,
        "samples": samples,
        "labels": dict(sorted(labels.items())),
        "known_finding_hits": dict(sorted(known_hits.items())),
        "regress_replays": n_regress,
        "shards": len(shards),
        "inconclusive_cases": inconclusive,
        "shrink_evaluations": sum(r.get("shrink_evals", 0) for r in results),
    }
    coverage["slowest_shards"] = [[r.get("shard"), round(r.get("wall_s", 0), 1)] for r in
                                  sorted(results, key=lambda r: -r.get("wall_s", 0))[:5]]
    coverage.update(extra)
    if hasattr(mod, "finalize"):
        try:
            more = mod.finalize(results, tier, seed, coverage) or []
            violations.extend(more)
        except HarnessError as e:
            errors.append(f"HarnessError: {e}")
    evidence = {
        "property_id": prop, "tier": tier, "seed": seed, "level": getattr(mod, "LEVEL", "exploration"),
        "coverage": coverage, "assumptions": list(getattr(mod, "ASSUMPTIONS", [])),
        "wall_s": round(wall, 3), "violations": len(violations),
    }
    if errors:
        evidence["coverage"]["harness_errors"] = [e[:400] for e in errors[:10]]
    tmp = os.path.join(EVIDENCE_DIR, f"{prop}.json.tmp")
    with open(tmp, "w") as fh:
        json.dump(evidence, fh, indent=1, default=repr)
    os.replace(tmp, os.path.join(EVIDENCE_DIR, f"{prop}.json"))

    print(f"{prop} [{tier}] seed={seed}: {evaluations} cases, {len(nontrivial)} distinct non-trivial, "
          f"{sum(known_hits.values())} known-finding hits, {inconclusive} inconclusive, {wall:.1f}s")
    for key, e in sorted(known.items()):
        print(f"KNOWN-FINDING: property={prop} {key} {e.get('what', '')} (hits this run: {known_hits.get(key, 0)})")
    seen = set()
    for v in violations:
        if (v["key"], v["replay"]) in seen:
            continue
        seen.add((v["key"], v["replay"]))
        print(f"  violated: {v['key']}: {v['detail']}")
        print(f"VIOLATION property={prop} replay={v['replay']}")
    if violations:
        return 1
    if errors:
        for e in errors[:10]:
            print("HARNESS-ERROR", e)
        return 2
    if evaluations == 0:
        print("HARNESS-ERROR nothing was evaluated")
        return 2
    return 0
