"""Optimizers exported by pyvolutionary + their frozen documented-scale ("fixture") configurations."""
import inspect
import json
import os

from . import VERIF_ROOT

BASE_FIELDS = ("population_size", "max_cycles", "fitness_error", "early_stopping")


class HarnessError(Exception):
    """Anything that is the harness' fault (exit code 2, never a VIOLATION)."""


_cache = None


def load():
    """name -> dict(cls=, cfg_cls=, params=)  for every exported subclass of OptimizationAbstract."""
    global _cache
    if _cache is not None:
        return _cache
    import pyvolutionary as pv
    from pyvolutionary.abstract import OptimizationAbstract
    with open(os.path.join(VERIF_ROOT, "baselines", "fixture_configs.json")) as fh:
        fixtures = json.load(fh)
    reg = {}
    for name in sorted(dir(pv)):
        obj = getattr(pv, name)
        if inspect.isclass(obj) and issubclass(obj, OptimizationAbstract) and obj is not OptimizationAbstract:
            if inspect.isabstract(obj):
                continue
            if name not in fixtures:
                raise HarnessError(f"unregistered optimizer {name}: add a documented-scale config to "
                                   f"baselines/fixture_configs.json")
            fx = fixtures[name]
            cfg_cls = getattr(pv, fx["config_class"], None)
            if cfg_cls is None:
                raise HarnessError(f"config class {fx['config_class']} not exported")
            reg[name] = {"cls": obj, "cfg_cls": cfg_cls, "params": dict(fx["params"])}
    if not reg:
        raise HarnessError("no optimizers found")
    _cache = reg
    return reg


def names():
    return list(load().keys())


# Optimizers whose population is variable by design (property C10 names them).
VARIABLE_POPULATION = ("BeeColonyOptimization", "ForestOptimizationAlgorithm", "ImperialistCompetitiveOptimization")


def optional_fields(optimizer):
    """algorithm fields of the config model that have a default and are absent from the documented-scale config"""
    r = load()[optimizer]
    out = {}
    for k, f in r["cfg_cls"].model_fields.items():
        if k in r["params"] or k in BASE_FIELDS:
            continue
        if isinstance(f.default, (bool, int, float)):
            out[k] = f.default
    return out
