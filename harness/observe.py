"""Run one RunSpec against the real library under outside-only instrumentation -> Observation."""
import contextlib
import io
import os
import random
import signal
import traceback

import numpy as np
from pydantic import BaseModel

from . import oracles, tasks
from .tasks import REC


class CaseTimeout(BaseException):
    pass


def _alarm(signum, frame):
    raise CaseTimeout()


@contextlib.contextmanager
def watchdog(seconds):
    if seconds and hasattr(signal, "SIGALRM"):
        old = signal.signal(signal.SIGALRM, _alarm)
        signal.alarm(int(seconds))
        try:
            yield
        finally:
            signal.alarm(0)
            signal.signal(signal.SIGALRM, old)
    else:
        yield


# ---------------------------------------------------------------------------------------------------------
# deep structural snapshots (C09) and plain copies of populations (C15, C04)
# ---------------------------------------------------------------------------------------------------------
def snapshot(obj, _depth=0):
    """JSON-like, NaN-safe, type-preserving structural copy of configs / tasks / variables."""
    if _depth > 12:
        return "<deep>"
    if isinstance(obj, BaseModel):
        d = {"__class__": type(obj).__name__}
        for name in type(obj).model_fields:
            d[name] = snapshot(getattr(obj, name), _depth + 1)
        priv = getattr(obj, "__pydantic_private__", None) or {}
        for name, val in priv.items():
            if name == "_label_encoder":
                val = getattr(val, "__dict__", None)
            d["priv:" + name] = snapshot(val, _depth + 1)
        return d
    if isinstance(obj, dict):
        return {"__dict__": [[snapshot(k, _depth + 1), snapshot(v, _depth + 1)] for k, v in obj.items()]}
    if isinstance(obj, (list, tuple)):
        return [type(obj).__name__] + [snapshot(e, _depth + 1) for e in obj]
    if isinstance(obj, np.ndarray):
        return ["ndarray", str(obj.dtype)] + [snapshot(e, _depth + 1) for e in obj.tolist()]
    if isinstance(obj, (float, np.floating)):
        return f"{type(obj).__name__}:{float(obj)!r}"
    if isinstance(obj, (bool, np.bool_)):
        return f"bool:{bool(obj)}"
    if isinstance(obj, (int, np.integer)):
        return f"{type(obj).__name__}:{int(obj)}"
    if obj is None or isinstance(obj, str):
        return obj
    if hasattr(obj, "value") and hasattr(obj, "name") and type(obj).__module__.endswith("enums"):
        return f"enum:{obj.value}"
    return f"{type(obj).__name__}:{obj!r}"[:200]


def diff_snapshots(a, b, path=""):
    """paths at which two snapshots differ"""
    if type(a) is not type(b):
        return [path or "."]
    if isinstance(a, dict):
        out = []
        for k in sorted(set(a) | set(b), key=str):
            if k not in a or k not in b:
                out.append(f"{path}.{k}")
            else:
                out.extend(diff_snapshots(a[k], b[k], f"{path}.{k}"))
        return out
    if isinstance(a, list):
        if len(a) != len(b):
            return [path + "[len]"]
        out = []
        for i, (x, y) in enumerate(zip(a, b)):
            out.extend(diff_snapshots(x, y, f"{path}[{i}]"))
        return out
    return [] if a == b else [path or "."]


def plain_position(pos):
    out = []
    for c in pos:
        if isinstance(c, np.ndarray):
            c = c.tolist()
        if isinstance(c, (list, tuple)):
            out.append([e.item() if isinstance(e, np.generic) else e for e in c])
        else:
            out.append(c.item() if isinstance(c, np.generic) else c)
    return out


def plain_agents(agents, sign=1.0):
    return [(plain_position(a.position), sign * a.cost if sign != 1.0 else a.cost, a.fitness) for a in agents]


def frepr(x):
    return repr(float(x)) if isinstance(x, (float, np.floating)) else repr(x)


def result_digest(res):
    """Exact, NaN-aware, hash-seed independent rendering of a whole OptimizationResult."""
    gens = []
    for g in res.evolution:
        gens.append([(repr(plain_position(a.position)), frepr(a.cost), frepr(a.fitness)) for a in g.agents])
    b = res.best_solution
    return {
        "evolution": gens,
        "rates": [frepr(r) for r in res.rates],
        "best": None if b is None else (repr(plain_position(b.position)), frepr(b.cost), frepr(b.fitness)),
    }


# ---------------------------------------------------------------------------------------------------------
# step instrumentation by temporarily patching the class attribute (keeps instances picklable for
# process pools; an instance-level closure would not be)
# ---------------------------------------------------------------------------------------------------------
class StepLog:
    def __init__(self):
        self.steps = 0
        self.snaps = []
        self.identity = []   # per cycle: ids of agent objects in the population
        self.keep_snaps = True
        self.init_snap = None
        self.init_identity = None


_LOG = StepLog()
_ORIG = {}


def _wrapped_step(self):
    _ORIG[type(self)](self)
    _LOG.steps += 1
    if _LOG.keep_snaps:
        _LOG.snaps.append(plain_agents(self._population))
        _LOG.identity.append([id(a) for a in self._population])


def _wrapped_after_init(self):
    # entered right after optimize() recorded generation 0
    if _LOG.keep_snaps and _LOG.init_snap is None:   # some algorithms call it again from inside a cycle
        _LOG.init_snap = plain_agents(self._population)
        _LOG.init_identity = [id(a) for a in self._population]
    _ORIG_AFTER[type(self)](self)


_ORIG_AFTER = {}


@contextlib.contextmanager
def instrumented(cls):
    owner = next(k for k in cls.__mro__ if "optimization_step" in k.__dict__)
    orig = owner.__dict__["optimization_step"]
    owner_a = next(k for k in cls.__mro__ if "after_initialization" in k.__dict__)
    orig_a = owner_a.__dict__["after_initialization"]
    _ORIG[cls] = orig
    _ORIG_AFTER[cls] = orig_a
    owner.optimization_step = _wrapped_step
    owner_a.after_initialization = _wrapped_after_init
    try:
        yield
    finally:
        owner.optimization_step = orig
        owner_a.after_initialization = orig_a
        _ORIG.pop(cls, None)
        _ORIG_AFTER.pop(cls, None)


class Observation:
    __slots__ = ("spec", "outcome", "result", "exc", "exc_key", "exc_text", "steps", "snaps", "identity",
                 "init_snap", "init_identity", "n_calls", "bad_calls", "on_bound", "cfg_before", "cfg_after", "task_before",
                 "task_after", "cfg_identity_same", "config", "task", "optimizer", "repaired", "stdout",
                 "log_args")

    @property
    def ok(self):
        return self.outcome == "ok"


def exception_key(e):
    tb = traceback.extract_tb(e.__traceback__)
    frs = [f for f in tb if "/pyvolutionary/" in f.filename]
    fr = frs[-1] if frs else (tb[-1] if tb else None)
    where = f"{os.path.basename(fr.filename)}:{fr.name}" if fr else "?"
    return type(e).__name__, where


def perturb_ambient(n):
    """Put both global RNGs into a state that depends on `n` (nothing may depend on ambient RNG state)."""
    np.random.seed(n % (2 ** 32))
    np.random.random(n % 7)
    random.seed(n)
    for _ in range(n % 5):
        random.random()


def run(spec, *, keep_snaps=True, snapshots_cfg=True, timeout=90, optimizer_obj=None, task_obj=None,
        log_args=False, delay=None):
    """Execute spec = {optimizer, config, task, mode, workers, pre_noise}.  `optimizer_obj` / `task_obj` let
    history checks (C08, C18) supply an already used instance."""
    obs = Observation()
    obs.spec = spec
    name = spec["optimizer"]
    if optimizer_obj is None:
        opt, cfg, repaired = tasks.build_optimizer(name, spec["config"], debug=bool(spec.get("debug")),
                                                     configure=spec.get("configure"))
    else:
        opt, cfg, repaired = optimizer_obj, optimizer_obj.configuration, False
    task = task_obj if task_obj is not None else tasks.build_task(spec["task"])
    obs.optimizer, obs.config, obs.task, obs.repaired = opt, cfg, task, repaired
    if spec.get("warmup") is not None and optimizer_obj is None:
        # the judged run is made on an instance that has already been used on another task (its outcome is ignored)
        REC.reset()
        try:
            with contextlib.redirect_stdout(io.StringIO()), np.errstate(all="ignore"), watchdog(timeout):
                opt.optimize(tasks.build_task(spec["warmup"]))
        except CaseTimeout:
            obs.outcome = "timeout"
            obs.result = obs.exc = obs.exc_key = obs.exc_text = None
            return obs
        except Exception:  # noqa: BLE001 - a crashing warm-up is some other check's business
            pass
    REC.reset()
    REC.delay = delay
    REC.log_args = [] if log_args else None
    _LOG.steps, _LOG.snaps, _LOG.identity, _LOG.keep_snaps = 0, [], [], keep_snaps
    _LOG.init_snap = _LOG.init_identity = None
    if snapshots_cfg:
        obs.cfg_before, obs.task_before = snapshot(cfg), snapshot(task)
    kwargs = {}
    if spec.get("mode") is not None:
        kwargs["mode"] = spec["mode"]
    if spec.get("workers") is not None:
        kwargs["workers"] = spec["workers"]
    perturb_ambient(int(spec.get("pre_noise", 0)))
    buf = io.StringIO()
    obs.result = obs.exc = obs.exc_key = obs.exc_text = None
    try:
        with instrumented(type(opt)), contextlib.redirect_stdout(buf), np.errstate(all="ignore"), \
                watchdog(timeout):
            obs.result = opt.optimize(task, **kwargs)
        obs.outcome = "ok"
    except CaseTimeout:
        obs.outcome = "timeout"
    except Exception as e:  # noqa: BLE001 - classified, never swallowed: becomes obs.exc / obs.exc_key
        obs.outcome = "exc"
        obs.exc = e
        obs.exc_key = exception_key(e)
        obs.exc_text = "".join(traceback.format_exception_only(type(e), e)).strip()[:300]
    obs.stdout = buf.getvalue()[:2000]
    obs.steps, obs.snaps, obs.identity = _LOG.steps, _LOG.snaps, _LOG.identity
    obs.init_snap, obs.init_identity = _LOG.init_snap, _LOG.init_identity
    obs.n_calls, obs.bad_calls, obs.on_bound = REC.n_calls, list(REC.bad), REC.on_bound
    obs.log_args = REC.log_args
    if isinstance(obs.exc, tasks.NonMemberArgument):
        e = obs.exc
        obs.bad_calls.append((e.kind, e.coord, e.detail, e.where))
    if snapshots_cfg:
        obs.cfg_after, obs.task_after = snapshot(cfg), snapshot(task)
        obs.cfg_identity_same = opt.configuration is cfg
    return obs
