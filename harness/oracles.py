"""Oracles written from the *declarations* in a task spec, never from the library's own correct()/decode().

A task spec is plain JSON:
  {"variables": [ {"type": "ContinuousVariable", "name": "a", "lower_bound": .., "upper_bound": ..},
                  {"type": "ContinuousMultiVariable"|"MultiObjectiveVariable", "name":.., "lower_bounds": [..], "upper_bounds": [..]},
                  {"type": "DiscreteVariable", "name":.., "choices": [..]},
                  {"type": "DiscreteMultiVariable", "name":.., "choices": [[..], ..]},
                  {"type": "BinaryVariable", "name":.., "n_vars": k},
                  {"type": "PermutationVariable", "name":.., "items": [..]} ],
   "objective": {"terms": [ {"family": .., ...}, .. ], "style": "direct"|"transform", "salt": int},
   "minmax": "min"|"max", "weights": null|[..], "seed": null|int}
"""
import math
import numbers

import numpy as np


# ---------------------------------------------------------------------------------------------------------
# flattening of the declarations
# ---------------------------------------------------------------------------------------------------------
def flat_coords(task_spec):
    """One entry per scalar coordinate of the search space: ('c', lb, ub) | ('d', n_choices) | ('p', n_items)."""
    out = []
    for v in task_spec["variables"]:
        t = v["type"]
        if t == "ContinuousVariable":
            out.append(("c", float(v["lower_bound"]), float(v["upper_bound"])))
        elif t in ("ContinuousMultiVariable", "MultiObjectiveVariable"):
            out.extend(("c", float(lo), float(hi)) for lo, hi in zip(v["lower_bounds"], v["upper_bounds"]))
        elif t == "DiscreteVariable":
            out.append(("d", len(v["choices"])))
        elif t == "DiscreteMultiVariable":
            out.extend(("d", len(ch)) for ch in v["choices"])
        elif t == "BinaryVariable":
            out.extend(("d", 2) for _ in range(v["n_vars"]))
        elif t == "PermutationVariable":
            out.append(("p", len(v["items"])))
        else:
            raise ValueError(t)
    return out


def var_sizes(task_spec):
    sizes = []
    for v in task_spec["variables"]:
        t = v["type"]
        if t in ("ContinuousMultiVariable", "MultiObjectiveVariable"):
            sizes.append(len(v["lower_bounds"]))
        elif t == "DiscreteMultiVariable":
            sizes.append(len(v["choices"]))
        elif t == "BinaryVariable":
            sizes.append(v["n_vars"])
        else:
            sizes.append(1)
    return sizes


def encoding_of(task_spec):
    kinds = {c[0] for c in flat_coords(task_spec)}
    if kinds == {"c"}:
        return "continuous"
    if kinds == {"p"}:
        return "permutation"
    if kinds == {"d"}:
        return "integer"
    return "mixed"


# ---------------------------------------------------------------------------------------------------------
# membership (C01, C05)
# ---------------------------------------------------------------------------------------------------------
def _is_real(x):
    return isinstance(x, numbers.Real) and not isinstance(x, (bool, np.bool_))


def _is_int(x):
    return isinstance(x, (int, np.integer)) and not isinstance(x, (bool, np.bool_))


def member(coords, pos):
    """None if `pos` is a member of the search space, else (kind, coordinate index, detail)."""
    try:
        n = len(pos)
    except TypeError:
        return ("length", -1, f"not a sequence: {type(pos).__name__}")
    if isinstance(pos, (str, bytes)):
        return ("type", -1, "string")
    if n != len(coords):
        return ("length", -1, f"{n} coordinates for {len(coords)} declared")
    for j, (c, spec) in enumerate(zip(pos, coords)):
        k = spec[0]
        if k == "c":
            if not _is_real(c):
                return ("type", j, f"continuous coordinate of type {type(c).__name__}")
            if not math.isfinite(c):
                return ("nonfinite", j, repr(float(c)))
            if not (spec[1] <= c <= spec[2]):
                return ("out-of-bounds", j, f"{c!r} not in [{spec[1]!r}, {spec[2]!r}]")
        elif k == "d":
            if not _is_int(c):
                return ("not-an-index", j, f"{c!r} of type {type(c).__name__}")
            if not (0 <= c < spec[1]):
                return ("not-an-index", j, f"{c!r} not in 0..{spec[1] - 1}")
        else:
            if isinstance(c, np.ndarray):
                c = c.tolist()
            if not isinstance(c, (list, tuple)):
                return ("not-a-permutation", j, f"type {type(c).__name__}")
            if not all(_is_int(e) for e in c):
                return ("not-a-permutation", j, f"non-integer entries {c!r}"[:120])
            if sorted(int(e) for e in c) != list(range(spec[1])):
                return ("not-a-permutation", j, f"{c!r}"[:120])
    return None


def on_bound(coords, pos):
    """True if some continuous coordinate sits exactly on a declared bound (clipping was exercised)."""
    for c, spec in zip(pos, coords):
        if spec[0] == "c" and _is_real(c) and (c == spec[1] or c == spec[2]):
            return True
    return False


# ---------------------------------------------------------------------------------------------------------
# objective families (harness-owned, deterministic, total)
# ---------------------------------------------------------------------------------------------------------
def _tab(salt, j, i):
    return (((salt + 1) * (j * 131 + i * 31 + 7)) % 101) / 10.0 - 5.0


def _sorted_items(items):
    # same order the library documents for its label encoder: strings first, then numbers, each ascending
    return sorted(set(items), key=lambda x: (isinstance(x, (int, float)), x))


def features_from_position(task_spec, pos):
    """Numeric feature vector z (one entry per scalar coordinate) computed from an *encoded* position."""
    salt = task_spec["objective"].get("salt", 0)
    coords = flat_coords(task_spec)
    z = []
    for j, (c, spec) in enumerate(zip(pos, coords)):
        k = spec[0]
        try:
            if k == "c":
                z.append(float(c))
            elif k == "d":
                i = int(c)
                z.append(_tab(salt, j, i) if 0 <= i < spec[1] else float("nan"))
            else:
                p = [int(e) for e in (c.tolist() if isinstance(c, np.ndarray) else c)]
                z.append(sum((i + 1) * _tab(salt, j, e) for i, e in enumerate(p)) / max(1, len(p)))
        except (TypeError, ValueError, OverflowError):
            z.append(float("nan"))
    return z


def features_from_decoded(task_spec, decoded):
    """The same feature vector computed from the dictionary returned by Task.transform_solution."""
    salt = task_spec["objective"].get("salt", 0)
    z = []
    j = 0
    for v in task_spec["variables"]:
        t = v["type"]
        val = decoded[v["name"]]
        if t == "ContinuousVariable":
            z.append(float(val)); j += 1
        elif t in ("ContinuousMultiVariable", "MultiObjectiveVariable"):
            for e in val:
                z.append(float(e)); j += 1
        elif t == "DiscreteVariable":
            z.append(_tab(salt, j, _index_of(v["choices"], val))); j += 1
        elif t == "DiscreteMultiVariable":
            for ch, e in zip(v["choices"], val):
                z.append(_tab(salt, j, _index_of(ch, e))); j += 1
        elif t == "BinaryVariable":
            for e in val:
                z.append(_tab(salt, j, _index_of([0, 1], e))); j += 1
        else:
            order = _sorted_items(v["items"])
            p = [_index_of(order, e) for e in val]
            z.append(sum((i + 1) * _tab(salt, j, e) for i, e in enumerate(p)) / max(1, len(p))); j += 1
    return z


def _index_of(choices, value):
    for i, c in enumerate(choices):
        if type(c) is type(value) and c == value:
            return i
    for i, c in enumerate(choices):
        if c == value:
            return i
    raise ValueError(f"{value!r} is not one of the declared choices {choices!r}")


def _term(term, z):
    fam = term["family"]
    with np.errstate(all="ignore"):
        a = np.asarray(z, dtype=float)
        if fam == "sphere":
            r = np.sum((a - term.get("c", 0.0)) ** 2)
        elif fam == "abssum":
            r = np.sum(np.abs(a)) - term.get("off", 0.0)
        elif fam == "cosprod":
            r = 10.0 * np.prod(np.cos(a))
        elif fam == "linear":
            r = term.get("s", 1.0) * np.sum(a)
        elif fam == "constant":
            r = np.float64(term.get("c", 0.0))
        elif fam == "plateau":
            r = np.floor(np.sum(np.abs(a)) / term.get("q", 1.0))
        elif fam == "barrier":
            # infinite penalty for "infeasible" points (death penalty), finite bowl elsewhere
            r = np.inf if np.sum(a) > term.get("c", 0.0) else np.sum((a - 1.0) ** 2)
        elif fam == "logsum":
            # -inf on a zero coordinate, NaN on a negative one: an objective that is not defined on the whole box
            r = np.sum(np.log(a) - 0.25 * a)
        elif fam == "altlinear":
            sgn = np.where(np.arange(len(a)) % 2 == 0, 1.0, -1.0)
            r = term.get("s", 1.0) * np.sum(sgn * a)
        else:
            raise ValueError(fam)
    return float(r)


def _typed(v, kind):
    """the raw value in the type the user's objective returns: "int" / "int64" = an objective that counts (floor of
    the value, finite values only), "float64" = the same value as a numpy scalar"""
    if not isinstance(v, float):
        return v
    if kind == "float64":
        return np.float64(v)
    if not math.isfinite(v):
        return v
    n = math.floor(v)
    return np.int64(n) if kind == "int64" and abs(n) < 2 ** 62 else int(n)


def objective_value(task_spec, z):
    """Raw value the user's objective returns for features z: a float (an int for integer-valued objectives), or a
    list for multi-objective."""
    terms = task_spec["objective"]["terms"]
    neg = bool(task_spec["objective"].get("negate"))
    sgn = -1.0 if neg else 1.0
    kind = task_spec["objective"].get("returns")
    scalar = task_spec["objective"].get("force_scalar") or (
        task_spec.get("weights") is None and len(terms) == 1 and not task_spec["objective"].get("as_list"))
    if scalar and kind:
        v = _typed(_term(terms[0], z), kind)       # counted first, negated afterwards (exact)
        return -v if neg else v
    if scalar:
        return sgn * _term(terms[0], z)
    return [sgn * _term(t, z) for t in terms]


def scalar_cost(task_spec, raw):
    """The cost the library must report (user's sign): the raw value, or its dot product with the weights."""
    w = task_spec.get("weights")
    if w is None:
        return raw
    return float(np.dot(raw, w))


def truth_from_position(task_spec, pos):
    return scalar_cost(task_spec, objective_value(task_spec, features_from_position(task_spec, pos)))


def truth_from_decoded(task_spec, decoded):
    return scalar_cost(task_spec, objective_value(task_spec, features_from_decoded(task_spec, decoded)))


def fitness_of(cost):
    return 1.0 / (1.0 + cost) if cost >= 0 else 1.0 + abs(cost)


def close(a, b, rel=1e-9):
    if a == b:
        return True
    if isinstance(a, float) and isinstance(b, float) and math.isnan(a) and math.isnan(b):
        return True
    try:
        if not (math.isfinite(a) and math.isfinite(b)):
            return False                  # an infinite value is close to nothing but itself (inf <= rel * inf holds)
        return abs(a - b) <= rel * max(1.0, abs(a), abs(b))
    except (TypeError, OverflowError):
        return False


# ---------------------------------------------------------------------------------------------------------
# reference stop rule (C04)
# ---------------------------------------------------------------------------------------------------------
def reference_stop_index(rates, max_cycles, fitness_error, early_stopping):
    """1-based index k of the first cycle at which a configured criterion holds given rates r_1..r_n;
    None if no criterion holds within the given rates.  early_stopping = None | (patience, min_delta)."""
    diffs = []
    prev = 0.0
    for k, r in enumerate(rates, start=1):
        diffs.append(r - prev)
        prev = r
        stop = k >= max_cycles
        if fitness_error is not None and r <= fitness_error:
            stop = True
        if early_stopping is not None:
            patience, min_delta = early_stopping
            window = diffs[-patience:]
            if all(d < 0 and abs(d) < min_delta for d in window):
                stop = True
        if stop:
            return k
    return None


def deciding_criteria(rates, k, max_cycles, fitness_error, early_stopping):
    """Which criteria hold at cycle k (1-based)."""
    out = []
    if k >= max_cycles:
        out.append("max_cycles")
    if fitness_error is not None and rates[k - 1] <= fitness_error:
        out.append("fitness_error")
    if early_stopping is not None:
        patience, min_delta = early_stopping
        diffs = [r - p for r, p in zip(rates[:k], [0.0] + list(rates[:k - 1]))]
        if all(d < 0 and abs(d) < min_delta for d in diffs[-patience:]):
            out.append("early_stopping")
    return out
