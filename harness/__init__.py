"""Property-based verification harness for matteocacciola/pyvolutionary (see /verif/DESIGN.md)."""
import os
import sys
import warnings

VERIF_ROOT = os.path.dirname(os.path.dirname(os.path.abspath(__file__)))
REPO = os.environ.get("VERIF_REPO", "/repo")
if REPO not in sys.path:
    sys.path.insert(0, REPO)
warnings.filterwarnings("ignore")
