"""Scripted optimizers: harness subclasses of OptimizationAbstract whose behaviour is prescribed by the case
(C04 rate histories; C19 / C20 call logs).  They exercise the library's own optimize() loop, HyperTuner and
Multitask with an oracle that knows exactly what must happen."""
import json
import os
from fractions import Fraction
from typing import Any

from pyvolutionary.abstract import OptimizationAbstract
from pyvolutionary.models import Agent, BaseOptimizationConfig, Task
from pyvolutionary import ContinuousVariable


class ScriptConfig(BaseOptimizationConfig):
    pass


class _DummyTask(Task):
    def objective_function(self, x):
        return 0.0


def dummy_task(minmax="min", seed=None):
    kw = {"variables": [ContinuousVariable(name="x", lower_bound=0.0, upper_bound=1.0)], "minmax": minmax}
    if seed is not None:
        kw["seed"] = seed
    return _DummyTask(**kw)


class RateScriptOptimizer(OptimizationAbstract):
    """Cycle k installs a population whose agents all carry the scripted fitness f_k, so that the convergence
    rate of the cycle is |1 - f_k| (exactly, for populations of 1, 2 or - with dyadic f_k - 4 identical agents);
    counts its own optimization_step invocations; can supply more entries than the reference needs (beyond the
    script it repeats the last one)."""

    def __init__(self, config=None, fitness_script=(), pop_size=1):
        super().__init__(config)
        self.script = list(fitness_script)
        self.script_pop = pop_size
        self.steps_run = 0

    def set_config_parameters(self, parameters):
        self._config = ScriptConfig(**parameters)

    def _init_population(self):
        self._population = [Agent(position=[0.5], cost=float(i), fitness=1.0) for i in range(self.script_pop)]

    def optimization_step(self):
        k = self.steps_run
        self.steps_run += 1
        if self.steps_run > 10000:
            raise RuntimeError("runaway loop: more than 10000 cycles")
        f = self.script[k] if k < len(self.script) else self.script[-1]
        self._population = [Agent(position=[0.5], cost=float(i), fitness=f) for i in range(self.script_pop)]


# ---------------------------------------------------------------------------------------------------------
# C19 / C20: optimizers that log each optimize() call to an append-only file and return a scripted best cost
# ---------------------------------------------------------------------------------------------------------
class LogConfig(BaseOptimizationConfig):
    a: Any = None
    b: Any = None
    c: Any = None


def _append(path, record):
    line = json.dumps(record, sort_keys=True) + "\n"
    fd = os.open(path, os.O_WRONLY | os.O_APPEND | os.O_CREAT, 0o644)
    try:
        os.write(fd, line.encode())      # one write() of < PIPE_BUF bytes with O_APPEND: atomic across processes
    finally:
        os.close(fd)


def read_log(path):
    if not os.path.exists(path):
        return []
    with open(path) as fh:
        return [json.loads(l) for l in fh if l.strip()]


class LoggingOptimizer(OptimizationAbstract):
    """optimize() is the library's own loop (one trivial cycle); afterwards the call is logged and the returned
    best cost is looked up in a score table by (task, current parameters, trial counter).  The trial counter is a
    multiprocessing.Value created before the case and inherited by the forked trial workers; mean and std are
    permutation invariant, so the oracle does not depend on which worker got which trial."""
    log_path = None          # class attributes: set by the harness before the case (inherited by forks)
    scores = None            # {"<task>|<params json>": [score per trial]}
    counters = None          # {"<task>|<params json>": multiprocessing.Value}
    label = "LoggingOptimizer"

    def __init__(self, config=None):
        super().__init__(config)

    @property
    def name(self):
        return self.label

    def set_config_parameters(self, parameters):
        # like the library's optimizers: the dictionary may (but need not) carry the base fields as well
        self._config = LogConfig(**{"population_size": 1, "max_cycles": 1, "fitness_error": None, **parameters})

    def params(self):
        if self._config is None:
            return {}
        d = self._config.model_dump()
        return {k: (d[k].item() if hasattr(d[k], "item") else d[k]) for k in ("a", "b", "c") if d.get(k) is not None}

    def _init_population(self):
        self._population = [Agent(position=[0.5], cost=0.0, fitness=1.0)]

    def optimization_step(self):
        pass

    def optimize(self, task, mode=None, workers=None):
        res = super().optimize(task, mode=mode, workers=workers)
        params = self.params()
        key = f"{task.name}|{json.dumps(params, sort_keys=True)}"
        cls = LoggingOptimizer
        trial = 0
        ctr = (cls.counters or {}).get(f"{self.name}|{key}") or (cls.counters or {}).get(key)
        if ctr is not None:
            with ctr.get_lock():
                trial = ctr.value
                ctr.value += 1
        # "mode" is the mode the run was effectively made in (an optimizer remembers the last mode it was given)
        _append(cls.log_path, {"algo": self.name, "params": params, "task": task.name, "mode": str(self._mode),
                               "mode_arg": mode, "workers": workers, "pid": os.getpid(), "minmax": str(task.minmax),
                               "trial": trial})
        row = (cls.scores or {}).get(key)
        score = 0.0 if row is None else float(row[trial % len(row)])
        best = res.best_solution.model_copy(update={"cost": score})
        return res.model_copy(update={"best_solution": best})


def make_logging_optimizer(label):
    """distinct classes (distinct names) for Multitask"""
    return type(label, (LoggingOptimizer,), {"label": label, "__module__": __name__})


# pre-built named classes so that they are picklable by reference from worker processes
AlgoA = make_logging_optimizer("AlgoA")
AlgoB = make_logging_optimizer("AlgoB")
AlgoC = make_logging_optimizer("AlgoC")


class TaskOne(_DummyTask):
    pass


class TaskTwo(_DummyTask):
    pass


class TaskThree(_DummyTask):
    pass


def dyadic(x):
    return Fraction(x).limit_denominator(1 << 20)
