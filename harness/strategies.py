"""Hypothesis strategies that build JSON specs (never library objects), so that shrinking and replay work
on the spec itself."""
from hypothesis import strategies as st

from . import registry

BOUND_CLASSES = ("sym", "pos", "neg", "zero_lb", "zero_ub", "tiny", "huge", "int")


def _f(lo, hi):
    return st.floats(min_value=lo, max_value=hi, allow_nan=False, allow_infinity=False)


@st.composite
def bound_pair(draw, classes=BOUND_CLASSES):
    kind = draw(st.sampled_from(classes))
    if kind == "sym":
        a = draw(_f(0.5, 20.0)); lb, ub = -a, a
    elif kind == "pos":
        lb = draw(_f(0.1, 10.0)); ub = lb + draw(_f(0.1, 10.0))
    elif kind == "neg":
        ub = -draw(_f(0.1, 10.0)); lb = ub - draw(_f(0.1, 10.0))
    elif kind == "zero_lb":
        lb, ub = 0.0, draw(_f(0.5, 10.0))
    elif kind == "zero_ub":
        lb, ub = -draw(_f(0.5, 10.0)), 0.0
    elif kind == "tiny":
        lb = draw(_f(-1e-6, 1e-6)); ub = lb + draw(_f(1e-9, 1e-6))
    elif kind == "huge":
        lb = -draw(_f(1e5, 1e9)); ub = draw(_f(1e5, 1e9))
    else:
        lb = float(draw(st.integers(-5, 5))); ub = lb + draw(st.integers(1, 10))
    if not ub > lb:           # tiny + rounding: keep the declaration valid by construction
        ub = lb + 1e-6
    return kind, lb, ub


@st.composite
def bounds_list(draw, min_dim=1, max_dim=8, classes=BOUND_CLASSES):
    dim = draw(st.integers(min_dim, max_dim))
    uniform = draw(st.booleans())
    if uniform:
        k, lb, ub = draw(bound_pair(classes))
        return [k] * dim, [lb] * dim, [ub] * dim
    pairs = [draw(bound_pair(classes)) for _ in range(dim)]
    return [p[0] for p in pairs], [p[1] for p in pairs], [p[2] for p in pairs]


@st.composite
def choices_list(draw, min_n=1, max_n=6):
    n = draw(st.integers(min_n, max_n))
    kind = draw(st.sampled_from(["ints", "floats", "strs", "mixed"]))
    if kind == "ints":
        return draw(st.lists(st.integers(-5, 50), min_size=n, max_size=n, unique=True))
    if kind == "floats":
        return draw(st.lists(_f(-10.0, 10.0), min_size=n, max_size=n, unique=True))
    if kind == "strs":
        pool = ["a", "b", "c", "rbf", "linear", "poly", "x1", "zz"]
        return draw(st.lists(st.sampled_from(pool), min_size=n, max_size=min(n, len(pool)), unique=True))
    pool = [0, 3, 7.5, -2.25, "a", "rbf", None, "linear", 12]   # pairwise distinct under ==
    return draw(st.lists(st.sampled_from(pool), min_size=n, max_size=n, unique_by=repr))


@st.composite
def perm_items(draw, min_n=2, max_n=8):
    n = draw(st.integers(min_n, max_n))
    kind = draw(st.sampled_from(["range", "ints", "strs", "floats"]))
    if kind == "range":
        return list(range(n))
    if kind == "ints":
        return draw(st.lists(st.integers(-20, 100), min_size=n, max_size=n, unique=True))
    if kind == "floats":
        return draw(st.lists(_f(-10.0, 10.0), min_size=n, max_size=n, unique=True))
    pool = ["A", "B", "C", "D", "E", "F", "G", "H", "rome", "oslo"]
    return draw(st.lists(st.sampled_from(pool), min_size=n, max_size=n, unique=True))


ENCODINGS = ("cont_multi", "cont_singles", "multi_objective", "discrete", "discrete_multi", "binary", "mixed",
             "permutation")
CONTINUOUS_ENCODINGS = ("cont_multi", "cont_singles", "multi_objective")


@st.composite
def variables(draw, encoding, max_dim=8, classes=BOUND_CLASSES):
    if encoding == "cont_multi":
        _, lb, ub = draw(bounds_list(1, max_dim, classes))
        return [{"type": "ContinuousMultiVariable", "name": "x", "lower_bounds": lb, "upper_bounds": ub}]
    if encoding == "multi_objective":
        _, lb, ub = draw(bounds_list(1, max_dim, classes))
        return [{"type": "MultiObjectiveVariable", "name": "x", "lower_bounds": lb, "upper_bounds": ub}]
    if encoding == "cont_singles":
        _, lb, ub = draw(bounds_list(1, max_dim, classes))
        return [{"type": "ContinuousVariable", "name": f"x{i}", "lower_bound": l, "upper_bound": u}
                for i, (l, u) in enumerate(zip(lb, ub))]
    if encoding == "discrete":
        n = draw(st.integers(1, min(6, max_dim)))
        return [{"type": "DiscreteVariable", "name": f"d{i}", "choices": draw(choices_list())} for i in range(n)]
    if encoding == "discrete_multi":
        k = draw(st.integers(1, 4))
        return [{"type": "DiscreteMultiVariable", "name": "dm",
                 "choices": [draw(choices_list()) for _ in range(k)]}]
    if encoding == "binary":
        return [{"type": "BinaryVariable", "name": "b", "n_vars": draw(st.integers(1, 6))}]
    if encoding == "permutation":
        return [{"type": "PermutationVariable", "name": "route", "items": draw(perm_items())}]
    # mixed: 2..5 variables of any non-permutation type, any order, distinct names
    n = draw(st.integers(2, 5))
    out = []
    for i in range(n):
        t = draw(st.sampled_from(["ContinuousVariable", "ContinuousMultiVariable", "DiscreteVariable",
                                  "DiscreteMultiVariable", "BinaryVariable"]))
        if t == "ContinuousVariable":
            _, l, u = draw(bound_pair(classes))
            out.append({"type": t, "name": f"v{i}", "lower_bound": l, "upper_bound": u})
        elif t == "ContinuousMultiVariable":
            _, lb, ub = draw(bounds_list(1, 3, classes))
            out.append({"type": t, "name": f"v{i}", "lower_bounds": lb, "upper_bounds": ub})
        elif t == "DiscreteVariable":
            out.append({"type": t, "name": f"v{i}", "choices": draw(choices_list())})
        elif t == "DiscreteMultiVariable":
            k = draw(st.integers(1, 3))
            out.append({"type": t, "name": f"v{i}", "choices": [draw(choices_list()) for _ in range(k)]})
        else:
            out.append({"type": t, "name": f"v{i}", "n_vars": draw(st.integers(1, 4))})
    return out


FAMILIES = ("sphere", "abssum", "cosprod", "linear", "altlinear", "constant", "plateau")
# objectives that are infinite / undefined on part of the box (used where the oracle is indifferent to crashes)
WILD_FAMILIES = FAMILIES + ("barrier", "logsum")


@st.composite
def term(draw, families=FAMILIES):
    fam = draw(st.sampled_from(families))
    if fam == "sphere":
        return {"family": fam, "c": draw(_f(-3.0, 3.0))}
    if fam == "abssum":
        return {"family": fam, "off": draw(_f(0.0, 30.0))}
    if fam in ("linear", "altlinear"):
        return {"family": fam, "s": draw(st.sampled_from([1.0, -1.0, 0.5, -2.0]))}
    if fam == "constant":
        return {"family": fam, "c": draw(st.sampled_from([0.0, 1.0, -1.0, 2.5]))}
    if fam == "plateau":
        return {"family": fam, "q": draw(st.sampled_from([1.0, 2.0, 5.0]))}
    if fam == "barrier":
        return {"family": fam, "c": draw(st.sampled_from([0.0, 1.0, -2.0]))}
    return {"family": fam}


@st.composite
def task_spec(draw, encodings=ENCODINGS, minmax=("min", "max"), families=FAMILIES, max_dim=8,
              classes=BOUND_CLASSES, seeded=True, styles=("direct", "direct", "transform"),
              allow_multi_objective_max=True, mutating=0.1, array_rows=0.0, returns=0.15, weighted=0.15):
    enc = draw(st.sampled_from(encodings))
    vs = draw(variables(enc, max_dim=max_dim, classes=classes))
    mm = draw(st.sampled_from(minmax))
    spec = {"variables": vs, "minmax": mm, "weights": None, "seed": None}
    salt = draw(st.integers(0, 50))
    if enc == "multi_objective":
        if mm == "max" and not allow_multi_objective_max:
            spec["minmax"] = "min"
        k = draw(st.integers(2, 3))
        spec["objective"] = {"terms": [draw(term(families)) for _ in range(k)], "salt": salt, "style": "direct"}
        spec["weights"] = [draw(st.sampled_from([0.0, 0.3, 0.5, 1.0, 2.0])) for _ in range(k)]
    else:
        style = draw(st.sampled_from(styles))
        n_terms = 1
        if weighted > 0 and draw(_f(0.0, 1.0)) < weighted:
            # several weighted objectives over any kind of variables (not only a MultiObjectiveVariable)
            n_terms = draw(st.integers(1, 3))        # 1 = a one-element list of objectives with its one weight
            spec["weights"] = [draw(st.sampled_from([0.0, 0.3, 0.5, 1.0, 2.0])) for _ in range(n_terms)]
        if len(vs) >= 2 and draw(st.integers(0, 5)) == 0:
            # variables whose names were left at the library default ("var") or that share one name: accepted by
            # Task (names only key transform_solution, so these tasks read the position directly)
            spec["naming"] = draw(st.sampled_from(["default", "shared"]))
            for v in vs:
                if spec["naming"] == "default":
                    v.pop("name", None)
                else:
                    v["name"] = "v"
            style = "direct"
        spec["objective"] = {"terms": [draw(term(families)) for _ in range(n_terms)], "salt": salt, "style": style}
    if seeded == "mostly" and draw(st.integers(0, 3)) == 0:
        pass                      # an unseeded task (for checks whose oracle does not need a reproducible run)
    elif seeded:
        spec["seed"] = draw(st.one_of(st.sampled_from([0, 1, 42, 2 ** 31 - 1, 2 ** 32 - 1]),
                                      st.integers(0, 2 ** 32 - 1)))
    if mutating > 0 and draw(_f(0.0, 1.0)) < mutating:
        spec["objective"]["mutates_argument"] = True
    if returns > 0 and spec["weights"] is None and draw(_f(0.0, 1.0)) < returns:
        # the type of the returned number: an objective that counts (violated constraints, hops of a path) returns a
        # Python int or a numpy int64; one written with numpy returns a float64 scalar
        spec["objective"]["returns"] = draw(st.sampled_from(["int", "int64", "float64"]))
    if array_rows > 0 and enc == "multi_objective" and draw(_f(0.0, 1.0)) < array_rows:
        spec["objective"]["array_rows"] = True
    spec["encoding"] = enc
    return spec


def _perturb(draw, v, reverse_lists=False):
    if isinstance(v, bool):
        return v
    if isinstance(v, list) and reverse_lists and len(v) >= 2 and draw(st.integers(0, 2)) == 0:
        # ranges given high-to-low, or with independently drawn end points: accepted by several config models
        return list(reversed(v)) if draw(st.booleans()) else [_perturb(draw, e) for e in reversed(v)]
    if isinstance(v, int):
        # neighbours, the double, and the smallest values a validator may still accept (0 and 1)
        op = draw(st.sampled_from(["-2", "-1", "+1", "+2", "x2", "-1", "+1", "x2", "to0", "to1"]))
        return max(0, {"-2": v - 2, "-1": v - 1, "+1": v + 1, "+2": v + 2, "x2": v * 2, "to0": 0, "to1": 1}[op])
    if isinstance(v, float):
        return v * draw(st.sampled_from([0.5, 0.75, 1.25, 1.5]))
    if isinstance(v, list):
        return [_perturb(draw, e) for e in v]
    return v


@st.composite
def config_spec(draw, optimizer, max_cycles=(1, 8), pop_mults=(1, 1, 1.5, 2, 3), perturb=0.3,
                stopping=True, min_cycles=1, reverse_lists=False, pop_offsets=(0, 0, 0, 0, 1, 2, 3, 5, 7)):
    params = registry.load()[optimizer]["params"]
    ps = params["population_size"]
    mult = draw(st.sampled_from(pop_mults))
    # sizes at and above the documented scale, including ones that no group / clan / cluster count divides
    spec = {"population_size": int(ps * mult) + draw(st.sampled_from(pop_offsets)),
            "max_cycles": draw(st.integers(max(min_cycles, max_cycles[0]), max_cycles[1]))}
    if stopping:
        spec["fitness_error"] = draw(st.one_of(st.none(), st.none(), st.just(0.0), _f(0.0, 1.0)))
        if draw(st.integers(0, 3)) == 0:
            spec["early_stopping"] = {"patience": draw(st.integers(1, 4)),
                                      "min_delta": draw(st.one_of(st.sampled_from([0.0, 1e-4, 0.01, 1.0]), _f(0.0, 2.0)))}
        else:
            spec["early_stopping"] = None
    else:
        spec["fitness_error"] = None
        spec["early_stopping"] = None
    if perturb > 0:
        for k in sorted(params):
            if k in registry.BASE_FIELDS:
                continue
            if draw(_f(0.0, 1.0)) < perturb:
                spec[k] = _perturb(draw, params[k], reverse_lists)
        # optional fields of the config model that the documented-scale configuration leaves at their default
        for k, default in sorted(registry.optional_fields(optimizer).items()):
            if draw(_f(0.0, 1.0)) < perturb:
                if isinstance(default, bool):
                    spec[k] = draw(st.booleans())
                elif isinstance(default, int):
                    spec[k] = draw(st.integers(0, 3)) if 0 <= default <= 3 else _perturb(draw, default)
                elif isinstance(default, float):
                    spec[k] = _perturb(draw, default)
    return spec


@st.composite
def run_spec(draw, optimizer, task=None, config=None, modes=("serial",), max_workers=16, warmup=0.0, debug=0.04):
    t = draw(task if task is not None else task_spec())
    c = draw(config if config is not None else config_spec(optimizer))
    mode = draw(st.sampled_from(modes))
    spec = {"optimizer": optimizer, "config": c, "task": t, "mode": None, "workers": None,
            "pre_noise": draw(st.integers(0, 10 ** 6))}
    if mode != "serial" or draw(st.booleans()):
        spec["mode"] = mode
    if mode != "serial":
        spec["workers"] = draw(st.one_of(st.none(), st.integers(1, max_workers)))
    if draw(_f(0.0, 1.0)) < debug:
        spec["debug"] = True             # the constructor's debug switch (verbose printing) must not change anything
    if draw(st.integers(0, 7)) == 0:
        # the configuration reaches the instance through set_config_parameters instead of the constructor
        spec["configure"] = draw(st.sampled_from(["set", "reset"]))
    if warmup > 0 and draw(_f(0.0, 1.0)) < warmup:
        # an earlier optimize() call on the same instance, on a task of another shape / direction / scale
        spec["warmup"] = draw(task_spec(max_dim=5, encodings=("cont_multi", "cont_multi", "mixed", "discrete",
                                                              "permutation"), styles=("direct",)))
    return spec
