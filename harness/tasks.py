"""Real pyvolutionary objects built from JSON specs (tasks, variables, configs, optimizers)."""
import os
import sys

from pydantic import ValidationError

from . import oracles, registry

import pyvolutionary as pv
from pyvolutionary import Task, EarlyStopping


# ---------------------------------------------------------------------------------------------------------
# recorder shared by the instrumented objective (one case at a time per process)
# ---------------------------------------------------------------------------------------------------------
class Recorder:
    def __init__(self):
        self.reset()

    def reset(self, raise_in_workers=True):
        self.n_calls = 0
        self.bad = []            # (kind, coordinate, detail, "file.py:function")
        self.on_bound = False
        self.parent_pid = os.getpid()
        self.raise_in_workers = raise_in_workers
        self.delay = None        # optional (salt, max_ms) for C11 real-pool runs
        self.log_args = None     # optional list receiving every argument (C05 samples / C11)


REC = Recorder()


class NonMemberArgument(Exception):
    """Raised by the instrumented objective inside a worker process (a record would stay in the worker)."""

    def __init__(self, kind, coord, detail, where):
        super().__init__(kind, coord, detail, where)
        self.kind, self.coord, self.detail, self.where = kind, coord, detail, where


def _algorithm_frame():
    """innermost frame of an algorithm module (not abstract.py / models.py / helpers.py) on the call stack"""
    f = sys._getframe(2)
    fallback = None
    while f is not None:
        fn = f.f_code.co_filename
        if "/pyvolutionary/" in fn:
            base = os.path.basename(fn)
            if base not in ("abstract.py", "models.py", "helpers.py") and f.f_code.co_name != "_init_agent":
                return f"{base}:{f.f_code.co_name}"
            if fallback is None or base == "abstract.py":
                fallback = f"{base}:{f.f_code.co_name}"
        f = f.f_back
    return fallback or "?"


class SpecTask(Task):
    """A task whose objective is one of the harness' deterministic families, described in data['spec']."""

    def objective_function(self, x):
        spec = self.data["spec"]
        rec = REC
        rec.n_calls += 1
        coords = self.data["coords"]
        bad = oracles.member(coords, x)
        if bad is not None:
            where = _algorithm_frame()
            if os.getpid() != rec.parent_pid and rec.raise_in_workers:
                raise NonMemberArgument(bad[0], bad[1], bad[2], where)
            if len(rec.bad) < 50:
                rec.bad.append((bad[0], bad[1], bad[2], where))
        elif not rec.on_bound and oracles.on_bound(coords, x):
            rec.on_bound = True
        if rec.log_args is not None and len(rec.log_args) < 200000:
            rec.log_args.append(_plain(x))
        if rec.delay is not None:
            _sleep_for(x, rec.delay)
        if spec["objective"].get("style") == "transform" and bad is None:
            z = oracles.features_from_decoded(spec, self.transform_solution(x))
        else:
            z = oracles.features_from_position(spec, x)
        value = oracles.objective_value(spec, z)
        if spec["objective"].get("array_rows") and isinstance(value, list):
            # a user objective that hands back a stored float64 array (a row of a payoff table kept in task.data)
            rows = self.data["rows"]
            k = int(abs(sum(v for v in value if v == v and abs(v) != float("inf"))) * 7) % len(rows)
            return rows[k]
        if spec["objective"].get("mutates_argument"):
            # a user objective that scribbles on the list it was given (rescaling in place, appending a slack term):
            # the library must have handed it a copy
            try:
                for j in range(len(x)):
                    x[j] = 1e30
                x.append(7)
            except (TypeError, AttributeError):
                pass
        return value


def _plain(x):
    out = []
    for c in x:
        if hasattr(c, "tolist"):
            c = c.tolist()
        out.append(list(c) if isinstance(c, (list, tuple)) else c)
    return out


def _sleep_for(x, delay):
    import time
    import zlib
    salt, max_ms = delay
    h = zlib.crc32(repr((_plain(x), salt)).encode())
    if max_ms < 0:
        # straggler mode: about one evaluation in eight of the first ones (the pooled initial population) is slow
        if REC.n_calls <= 40 and h % 8 == 0:
            time.sleep(-max_ms / 1000.0)
        return
    time.sleep((h % 1000) / 1000.0 * max_ms / 1000.0)


# ---------------------------------------------------------------------------------------------------------
# builders
# ---------------------------------------------------------------------------------------------------------
def build_variable(v):
    t = v["type"]
    kw = {k: val for k, val in v.items() if k != "type"}
    return getattr(pv, t)(**kw)


def build_task(task_spec, cls=SpecTask):
    variables = [build_variable(v) for v in task_spec["variables"]]
    kw = dict(
        variables=variables,
        minmax=task_spec.get("minmax", "min"),
        data={"spec": task_spec, "coords": oracles.flat_coords(task_spec)},
    )
    if task_spec["objective"].get("array_rows"):
        import numpy as np
        k = len(task_spec["objective"]["terms"])
        salt = task_spec["objective"].get("salt", 0)
        kw["data"]["rows"] = np.array([[oracles._tab(salt, r, c) + 6.0 for c in range(k)] for r in range(5)], dtype=float)
    if task_spec.get("weights") is not None:
        kw["objective_weights"] = list(task_spec["weights"])
    if task_spec.get("seed") is not None:
        kw["seed"] = task_spec["seed"]
    return cls(**kw)


def config_kwargs(optimizer, cfg_spec):
    """Full keyword dictionary for the config class: fixture params overridden by the spec."""
    reg = registry.load()[optimizer]
    kw = dict(reg["params"])
    for k, val in cfg_spec.items():
        if k == "early_stopping":
            kw[k] = None if val is None else EarlyStopping(patience=val["patience"], min_delta=val["min_delta"])
        else:
            kw[k] = val
    return kw


def build_config(optimizer, cfg_spec):
    """-> (config object, repaired?)  Every config that reaches optimize() is one the library itself accepted:
    algorithm parameters that the validators refuse are reverted to the documented values - first only the fields
    the validation error names, then (model-level validators name none) all of them."""
    reg = registry.load()[optimizer]
    kw = config_kwargs(optimizer, cfg_spec)

    def revert(k):
        if k in reg["params"]:
            kw[k] = reg["params"][k]
        else:
            kw.pop(k, None)              # optional field of the config model: back to its default

    for _ in range(6):
        try:
            return reg["cfg_cls"](**kw), _ > 0
        except ValidationError as e:
            named = {str(err["loc"][0]) for err in e.errors() if err.get("loc")}
            named = {k for k in named if k in kw and k not in registry.BASE_FIELDS}
            if not named:
                break
            for k in named:
                revert(k)
    for k in list(kw):
        if k not in registry.BASE_FIELDS:
            revert(k)
    return reg["cfg_cls"](**kw), True


def build_optimizer(optimizer, cfg_spec, debug=False, configure=None):
    """configure: None = the configuration is passed to the constructor; "set" = a bare instance receives it through
    set_config_parameters (HyperTuner's way); "reset" = an instance constructed with the documented configuration and
    other stopping options receives it through set_config_parameters"""
    reg = registry.load()[optimizer]
    cfg, repaired = build_config(optimizer, cfg_spec)
    kw = {"debug": True} if debug else {}
    if configure is None:
        return reg["cls"](cfg, **kw), cfg, repaired
    if configure == "set":
        opt = reg["cls"](**kw)
    else:
        es = cfg.early_stopping
        other = EarlyStopping(patience=1 if es is None or es.patience > 1 else 5, min_delta=0.5)
        opt = reg["cls"](reg["cfg_cls"](**dict(reg["params"], early_stopping=other, fitness_error=None)), **kw)
    opt.set_config_parameters(cfg.model_dump())
    return opt, opt.configuration, repaired
