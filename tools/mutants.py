#!/venv/bin/python
"""Sensitivity protocol (DESIGN 2.6): apply each hand-written mutant to a scratch worktree of /repo HEAD (outside
/repo and /verif), run the named checks against it with VERIF_REPO, expect exit 1, remove the worktree.

usage: tools/mutants.py [mutant-name ...]      (default: all)   --list
"""
import json
import os
import subprocess
import sys

ROOT = os.path.dirname(os.path.dirname(os.path.abspath(__file__)))
MUTANTS = json.load(open(os.path.join(ROOT, "tools", "mutants.json")))


def run(m):
    wt = f"/tmp/verif_mut_{m['name']}"
    subprocess.run(["git", "-C", "/repo", "worktree", "remove", "--force", wt], capture_output=True)
    subprocess.check_call(["git", "-C", "/repo", "worktree", "add", "-q", "--detach", wt, "HEAD"])
    try:
        for e in m["edits"]:
            p = os.path.join(wt, e["file"])
            s = open(p).read()
            if e["old"] not in s:
                return {"name": m["name"], "error": f"pattern not found in {e['file']}"}
            open(p, "w").write(s.replace(e["old"], e["new"], 1))
        res = {}
        for chk in m["checks"]:
            env = dict(os.environ, VERIF_REPO=wt, VERIF_SEED=os.environ.get("VERIF_SEED", "1"))
            env["VERIF_EVIDENCE_DIR"] = "/tmp/verif_mut_evidence"
            r = subprocess.run([os.path.join(ROOT, "check"), chk, "--tier", "quick"], env=env, capture_output=True,
                               text=True)
            lines = [l for l in r.stdout.splitlines() if l.startswith("  violated")]
            res[chk] = {"exit": r.returncode, "first": lines[0][:200] if lines else r.stdout[-300:]}
        return {"name": m["name"], "results": res}
    finally:
        subprocess.run(["git", "-C", "/repo", "worktree", "remove", "--force", wt], capture_output=True)
        subprocess.run(["rm", "-rf", wt, os.path.join("/tmp", "verif_alt_" + os.path.basename(wt))])


if __name__ == "__main__":
    args = [a for a in sys.argv[1:] if not a.startswith("--")]
    if "--list" in sys.argv:
        for m in MUTANTS:
            print(m["name"], m["checks"])
        sys.exit(0)
    todo = [m for m in MUTANTS if not args or m["name"] in args or any(c in args for c in m["checks"])]
    bad = 0
    for m in todo:
        r = run(m)
        if "error" in r:
            print(f"{m['name']}: ERROR {r['error']}"); bad += 1; continue
        for chk, v in r["results"].items():
            status = "CAUGHT" if v["exit"] == 1 else f"MISSED(exit {v['exit']})"
            if v["exit"] != 1:
                bad += 1
            print(f"{m['name']:40s} {chk}: {status}  {v['first']}")
    sys.exit(1 if bad else 0)
