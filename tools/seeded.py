#!/venv/bin/python
"""Seeded breaking changes written by independent sub-agents (seeded/<name>/patch.diff, demo.py, meta.json).

  tools/seeded.py confirm <src_dir> <name> <property>   verify a sub-agent's deliverable in a fresh scratch worktree:
                                                        demo passes on HEAD, fails with the patch, suite passes with it;
                                                        then store it under seeded/<name>/
  tools/seeded.py run [<name> ...] [--tier quick|thorough] [--checks C01,C05]
                                                        apply each stored patch to a scratch worktree of /repo HEAD and
                                                        run the property's check(s) against it (VERIF_REPO); report
Scratch worktrees live under /tmp and are removed afterwards.  Nothing is ever applied to /repo itself."""
import json
import os
import shutil
import subprocess
import sys

ROOT = os.path.dirname(os.path.dirname(os.path.abspath(__file__)))
SEEDED = os.path.join(ROOT, "seeded")
PY = "/venv/bin/python"


def sh(cmd, **kw):
    return subprocess.run(cmd, capture_output=True, text=True, **kw)


def worktree(tag):
    wt = f"/tmp/verif_seeded_{tag}"
    sh(["git", "-C", "/repo", "worktree", "remove", "--force", wt])
    shutil.rmtree(wt, ignore_errors=True)
    r = sh(["git", "-C", "/repo", "worktree", "add", "-q", "--detach", wt, "HEAD"])
    if r.returncode:
        raise SystemExit(r.stderr)
    return wt


def drop(wt):
    sh(["git", "-C", "/repo", "worktree", "remove", "--force", wt])
    shutil.rmtree(wt, ignore_errors=True)
    shutil.rmtree(os.path.join("/tmp", "verif_alt_" + os.path.basename(wt)), ignore_errors=True)


def run_demo(wt, demo):
    env = dict(os.environ, PYTHONPATH=wt, PYTHONHASHSEED="0")
    r = sh([PY, demo], cwd=wt, env=env, timeout=1800)
    return r.returncode, (r.stdout + r.stderr)[-600:]


def confirm(src, name, prop):
    patch = os.path.join(src, "SEEDED_patch.diff")
    demo = os.path.join(src, "SEEDED_demo.py")
    assert os.path.exists(patch) and os.path.exists(demo), "deliverables missing"
    wt = worktree(name)
    meta = {"name": name, "property": prop, "ran": []}
    try:
        # demos written by the sub-agents often assert the import path of their own scratch worktree: retarget it
        text = open(demo).read().replace(os.path.abspath(src), wt)
        with open(os.path.join(wt, "SEEDED_demo.py"), "w") as fh:
            fh.write(text)
        rc0, out0 = run_demo(wt, "SEEDED_demo.py")
        meta["ran"].append({"cmd": "demo on unmodified HEAD", "exit": rc0})
        r = sh(["git", "-C", wt, "apply", "--whitespace=nowarn", patch])
        if r.returncode:
            print("patch does not apply:", r.stderr); return 1
        touched = sh(["git", "-C", wt, "diff", "--name-only"]).stdout.split()
        meta["files"] = touched
        rc1, out1 = run_demo(wt, "SEEDED_demo.py")
        meta["ran"].append({"cmd": "demo with the patch", "exit": rc1, "tail": out1[-300:]})
        print(f"demo clean: exit {rc0}; demo patched: exit {rc1}")
        if rc0 != 0 or rc1 == 0:
            print("NOT CONFIRMED (demo)", out0[-300:], out1[-300:]); return 1
        if any(t.startswith("tests/") for t in touched):
            print("NOT CONFIRMED: patch touches tests/"); return 1
        env = dict(os.environ, PYTHONPATH=wt)
        t = sh([PY, "-m", "pytest", "-q", "-p", "no:cacheprovider", "--timeout=900", "-n", "6", "tests"], cwd=wt, env=env)
        tail = [l for l in t.stdout.splitlines() if "passed" in l or "failed" in l or "error" in l.lower()][-3:]
        meta["ran"].append({"cmd": "pytest tests (285 tests) with the patch", "exit": t.returncode, "tail": tail})
        print("suite with patch: exit", t.returncode, tail)
        if t.returncode != 0:
            print("NOT CONFIRMED (suite fails)"); return 1
        dst = os.path.join(SEEDED, name)
        os.makedirs(dst, exist_ok=True)
        shutil.copy(patch, os.path.join(dst, "patch.diff"))
        with open(os.path.join(dst, "demo.py"), "w") as fh:
            fh.write(text)
        with open(os.path.join(dst, "meta.json"), "w") as fh:
            json.dump(meta, fh, indent=1)
        print("CONFIRMED ->", dst)
        return 0
    finally:
        drop(wt)


def run(names, tier, checks, save_regress=False):
    names = names or sorted(d for d in os.listdir(SEEDED) if os.path.isdir(os.path.join(SEEDED, d)))
    bad = 0
    for name in names:
        d = os.path.join(SEEDED, name)
        meta = json.load(open(os.path.join(d, "meta.json")))
        wt = worktree(name)
        try:
            r = sh(["git", "-C", wt, "apply", "--whitespace=nowarn", os.path.join(d, "patch.diff")])
            if r.returncode:
                print(f"{name}: patch does not apply: {r.stderr[:200]}"); bad += 1; continue
            for chk in (checks or meta.get("checks") or [meta["property"]]):
                env = dict(os.environ, VERIF_REPO=wt, VERIF_SEED=os.environ.get("VERIF_SEED", "1"))
                c = sh([os.path.join(ROOT, "check"), chk, "--tier", tier], env=env)
                if save_regress and c.returncode == 1:
                    keep_regress(c.stdout, chk, name)
                lines = [l for l in c.stdout.splitlines() if l.startswith("  violated")]
                head = [l for l in c.stdout.splitlines() if l.startswith(chk + " [")]
                status = "CAUGHT" if c.returncode == 1 else f"MISSED(exit {c.returncode})"
                if c.returncode != 1:
                    bad += 1
                print(f"{name:34s} {chk} [{tier}]: {status}  {(lines[0] if lines else (head[0] if head else c.stdout[-200:]))[:230]}",
                      flush=True)
        finally:
            drop(wt)
    return 1 if bad else 0


def keep_regress(stdout, chk, name, max_files=2):
    """commit the minimal reproductions as regression replays (re-run first by every invocation of the check)"""
    dst_dir = os.path.join(ROOT, "replays", "regress")
    os.makedirs(dst_dir, exist_ok=True)
    kept, keys = 0, set()
    for line in stdout.splitlines():
        if line.startswith("VIOLATION ") and "replay=" in line:
            p = line.split("replay=", 1)[1].strip()
            if not os.path.exists(p):
                continue
            doc = json.load(open(p))
            if doc.get("property") != chk or doc["key"] in keys:
                continue
            keys.add(doc["key"])
            doc["origin"] = f"minimal reproduction found by ./check {chk} against seeded change seeded/{name}; passes on the unchanged tree"
            with open(os.path.join(dst_dir, f"{chk}-{name}-{kept + 1}.json"), "w") as fh:
                json.dump(doc, fh, indent=1)
            kept += 1
            if kept >= max_files:
                break


if __name__ == "__main__":
    if sys.argv[1] == "confirm":
        sys.exit(confirm(sys.argv[2], sys.argv[3], sys.argv[4]))
    args = sys.argv[2:]
    tier, checks, names = "quick", None, []
    save = "--save-regress" in args
    args = [a for a in args if a != "--save-regress"]
    i = 0
    while i < len(args):
        if args[i] == "--tier":
            tier = args[i + 1]; i += 2
        elif args[i] == "--checks":
            checks = args[i + 1].split(","); i += 2
        else:
            names.append(args[i]); i += 1
    sys.exit(run(names, tier, checks, save))
