#!/venv/bin/python
"""Property-preserving changes written by independent sub-agents (benign/<name>/patch.diff, meta.json): refactors that
change trajectories, internals, tie choices and message texts but keep every listed property.  Every check must stay
quiet on them - a VIOLATION here is a false alarm of the machinery (or a slip of the refactor: read the replay).

  tools/benign.py keep <src_dir> <name>          store <src_dir>/BENIGN_patch.diff under benign/<name>/
  tools/benign.py run [<name> ...] [--tier quick] [--checks C01,C05] [--seed N]
                                                  apply each stored patch to a scratch worktree of /repo HEAD and run
                                                  the checks against it (VERIF_REPO); report exit codes and violations
Scratch worktrees live under /tmp and are removed afterwards.  Nothing is ever applied to /repo itself."""
import json
import os
import shutil
import subprocess
import sys

ROOT = os.path.dirname(os.path.dirname(os.path.abspath(__file__)))
BENIGN = os.path.join(ROOT, "benign")
ALL = [f"C{i:02d}" for i in range(1, 21)]


def sh(cmd, **kw):
    return subprocess.run(cmd, capture_output=True, text=True, **kw)


def worktree(tag):
    wt = f"/tmp/verif_benign_{tag}"
    sh(["git", "-C", "/repo", "worktree", "remove", "--force", wt])
    shutil.rmtree(wt, ignore_errors=True)
    r = sh(["git", "-C", "/repo", "worktree", "add", "-q", "--detach", wt, "HEAD"])
    if r.returncode:
        raise SystemExit(r.stderr)
    return wt


def drop(wt):
    sh(["git", "-C", "/repo", "worktree", "remove", "--force", wt])
    shutil.rmtree(wt, ignore_errors=True)
    shutil.rmtree(os.path.join("/tmp", "verif_alt_" + os.path.basename(wt)), ignore_errors=True)


def keep(src, name):
    patch = os.path.join(src, "BENIGN_patch.diff")
    assert os.path.exists(patch), "BENIGN_patch.diff missing"
    d = os.path.join(BENIGN, name)
    os.makedirs(d, exist_ok=True)
    shutil.copy(patch, os.path.join(d, "patch.diff"))
    files = sorted({l[6:].strip() for l in open(patch) if l.startswith("+++ b/")})
    lines = sum(1 for l in open(patch) if (l.startswith("+") or l.startswith("-")) and not l.startswith(("+++", "---")))
    meta = {"name": name, "files": files, "changed_lines": lines,
            "origin": "written by an independent sub-agent that saw the property texts and a scratch worktree of /repo "
                      "HEAD and was asked for a substantial refactor that preserves every property"}
    json.dump(meta, open(os.path.join(d, "meta.json"), "w"), indent=1)
    print(f"kept {d}: {lines} changed lines in {files}")


def run(names, tier, checks, seed):
    names = names or sorted(d for d in os.listdir(BENIGN) if os.path.isdir(os.path.join(BENIGN, d)))
    alarms = 0
    for name in names:
        d = os.path.join(BENIGN, name)
        wt = worktree(name)
        try:
            r = sh(["git", "-C", wt, "apply", "--whitespace=nowarn", os.path.join(d, "patch.diff")])
            if r.returncode:
                print(f"{name}: patch does not apply: {r.stderr[:200]}"); alarms += 1; continue
            for chk in checks:
                env = dict(os.environ, VERIF_REPO=wt, VERIF_SEED=str(seed))
                c = sh([os.path.join(ROOT, "check"), chk, "--tier", tier], env=env)
                lines = [l for l in c.stdout.splitlines() if l.startswith("  violated")]
                head = [l for l in c.stdout.splitlines() if l.startswith(chk + " [")]
                status = "quiet" if c.returncode == 0 else f"ALARM(exit {c.returncode})"
                if c.returncode != 0:
                    alarms += 1
                    keep_dir = os.path.join("/tmp", f"benign_alarm_{name}_{chk}")
                    os.makedirs(keep_dir, exist_ok=True)
                    with open(os.path.join(keep_dir, "stdout.txt"), "w") as fh:
                        fh.write(c.stdout + "\n--- stderr\n" + c.stderr[-3000:])
                    for l in c.stdout.splitlines():
                        if l.startswith("VIOLATION ") and "replay=" in l:
                            p = l.split("replay=", 1)[1].strip()
                            if os.path.exists(p):
                                shutil.copy(p, keep_dir)
                print(f"{name:12s} {chk} [{tier}] seed={seed}: {status}  "
                      f"{(lines[0] if lines else (head[0] if head else (c.stdout + c.stderr)[-200:]))[:260]}", flush=True)
        finally:
            drop(wt)
    return 1 if alarms else 0


if __name__ == "__main__":
    cmd = sys.argv[1]
    if cmd == "keep":
        keep(sys.argv[2], sys.argv[3])
        sys.exit(0)
    args = sys.argv[2:]
    tier, checks, names, seed = "quick", ALL, [], 1
    i = 0
    while i < len(args):
        if args[i] == "--tier":
            tier = args[i + 1]; i += 2
        elif args[i] == "--checks":
            checks = args[i + 1].split(","); i += 2
        elif args[i] == "--seed":
            seed = int(args[i + 1]); i += 2
        else:
            names.append(args[i]); i += 1
    sys.exit(run(names, tier, checks, seed))
