#!/venv/bin/python
"""Measures the pass rate of every (optimizer, integer-coded encoding) pair on the current tree and writes
baselines/c06_pairs.json (run once on the repaired pinned tree; committed; never written by a check)."""
import concurrent.futures
import json
import os
import sys

ROOT = os.path.dirname(os.path.dirname(os.path.abspath(__file__)))
sys.path.insert(0, ROOT)
import harness  # noqa: E402,F401
from harness import observe, registry, runner  # noqa: E402
from checks import c06  # noqa: E402

N = int(os.environ.get("PAIR_BASELINE_N", "40"))
N_POOL = int(os.environ.get("PAIR_BASELINE_N_POOL", "10"))


def one(name):
    out = {}
    for enc in c06.INT_ENCODINGS:
        ctx = runner.Ctx("C06", f"baseline:{name}:{enc}", known={})
        res = []

        def case(spec):
            obs = observe.run(spec, keep_snaps=False, snapshots_cfg=False)
            if obs.outcome != "timeout":
                res.append((obs.ok, None if obs.ok else "|".join(obs.exc_key)))
        runner.drive(ctx, c06.pair_strategy(name, enc), case, N, runner.mix_seed("baseline", 20261003, enc),
                     shrink=False, max_rounds=1)
        ok = sum(1 for r in res if r[0])
        fails = {}
        for r in res:
            if not r[0]:
                fails[r[1]] = fails.get(r[1], 0) + 1
        entry = {"ok": ok, "n": len(res), "rate": round(ok / max(1, len(res)), 3), "failures": fails}
        for mode in ("thread", "process"):
            res = []
            runner.drive(ctx, c06.pair_strategy(name, enc, mode), case, N_POOL,
                         runner.mix_seed("baseline", 20261003, enc, mode), shrink=False, max_rounds=1)
            okm = sum(1 for r in res if r[0])
            entry[mode] = {"ok": okm, "n": len(res), "rate": round(okm / max(1, len(res)), 3)}
        out[f"{name}|{enc}"] = entry
    return out


if __name__ == "__main__":
    pairs = {}
    with concurrent.futures.ProcessPoolExecutor(16) as ex:
        for d in ex.map(one, registry.names()):
            pairs.update(d)
    doc = {"_comment": "pass rate of optimize() per (optimizer, integer-coded encoding) pair, measured with "
                       "tools/build_c06_pairs.py on the repaired pinned tree; a pair with rate >= 0.9 'works today'",
           "n_per_pair": N, "pairs": dict(sorted(pairs.items()))}
    with open(os.path.join(ROOT, "baselines", "c06_pairs.json"), "w") as fh:
        json.dump(doc, fh, indent=1)
    works = sum(1 for v in pairs.values() if v["rate"] >= 0.9)
    print(f"{len(pairs)} pairs, {works} work today (>= 90%)")
