#!/venv/bin/python
"""Run a check against a scratch copy of the repository (a seeded change, a hand-written mutant or the pinned
tree) and keep the minimal reproductions it writes as committed regression replays (replays/regress/), which
every check re-runs first on every invocation.

usage: tools/harvest.py <repo_dir> <tag> <check> [--tier quick|thorough] [--max N]"""
import json
import os
import shutil
import subprocess
import sys

ROOT = os.path.dirname(os.path.dirname(os.path.abspath(__file__)))
REGRESS = os.path.join(ROOT, "replays", "regress")


def harvest(repo_dir, tag, chk, tier="quick", max_files=2, seed="1"):
    env = dict(os.environ, VERIF_REPO=repo_dir, VERIF_SEED=seed)
    r = subprocess.run([os.path.join(ROOT, "check"), chk, "--tier", tier], env=env, capture_output=True, text=True)
    paths = []
    for line in r.stdout.splitlines():
        if line.startswith("VIOLATION ") and "replay=" in line:
            p = line.split("replay=", 1)[1].strip()
            if p not in paths and os.path.exists(p):
                paths.append(p)
    os.makedirs(REGRESS, exist_ok=True)
    kept = []
    seen_keys = set()
    for p in paths:
        doc = json.load(open(p))
        if doc.get("property") != chk or doc["key"] in seen_keys:
            continue
        seen_keys.add(doc["key"])
        doc["origin"] = f"minimal reproduction found by ./check {chk} --tier {tier} against '{tag}'; passes on the unchanged tree"
        dst = os.path.join(REGRESS, f"{chk}-{tag}-{len(kept) + 1}.json")
        with open(dst, "w") as fh:
            json.dump(doc, fh, indent=1)
        kept.append(dst)
        if len(kept) >= max_files:
            break
    return r.returncode, kept


if __name__ == "__main__":
    args = sys.argv[1:]
    tier, mx = "quick", 2
    if "--tier" in args:
        i = args.index("--tier"); tier = args[i + 1]; del args[i:i + 2]
    if "--max" in args:
        i = args.index("--max"); mx = int(args[i + 1]); del args[i:i + 2]
    rc, kept = harvest(args[0], args[1], args[2], tier, mx)
    print(f"exit {rc}; kept {kept}")
