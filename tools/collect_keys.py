#!/venv/bin/python
"""Saturation helper (development only): run a check for several seeds and list every violation key that is
not yet in known_findings.json, with one example detail and the number of seeds that hit it.
usage: tools/collect_keys.py C06 thorough 31 32 33"""
import collections
import os
import subprocess
import sys

ROOT = os.path.dirname(os.path.dirname(os.path.abspath(__file__)))
prop, tier, seeds = sys.argv[1], sys.argv[2], sys.argv[3:]
hits = collections.Counter()
example = {}
for s in seeds:
    env = dict(os.environ, VERIF_SEED=s)
    r = subprocess.run([os.path.join(ROOT, "check"), prop, "--tier", tier], env=env, capture_output=True, text=True)
    keys = set()
    for line in r.stdout.splitlines():
        if line.startswith("  violated: "):
            key, _, detail = line[len("  violated: "):].partition(": ")
            keys.add(key)
            example.setdefault(key, detail[:300])
    for k in keys:
        hits[k] += 1
    head = [l for l in r.stdout.splitlines() if l.startswith(prop + " [")]
    print(f"seed {s}: exit {r.returncode}, {len(keys)} new keys; {head[0] if head else r.stdout[-300:]}", flush=True)
print("==== keys")
for k in sorted(hits):
    print(f"{hits[k]}/{len(seeds)}\t{k}\t{example[k]}")
