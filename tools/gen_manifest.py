#!/venv/bin/python
"""Regenerates MANIFEST.json from the check modules (each carries its own MANIFEST_ENTRY texts)."""
import importlib
import json
import os
import sys

ROOT = os.path.dirname(os.path.dirname(os.path.abspath(__file__)))
sys.path.insert(0, ROOT)
import harness  # noqa: E402,F401

ALL = [f"C{i:02d}" for i in range(1, 21)]
BASELINE = ("cd /repo && /venv/bin/python -m pytest -ra -q -p no:cacheprovider --timeout=900 "
            "--continue-on-collection-errors --junitxml=/tmp/pyvolutionary-baseline.junit.xml")

manifest = {
    "version": 1,
    "setup_cmd": ("/venv/bin/python -c 'import hypothesis' 2>/dev/null || /venv/bin/pip install --no-index "
                  "--find-links /opt/veriftools/wheels hypothesis"),
    "hooks": {
        "guard": "PYVOLUTIONARY_VERIF",
        "enable": ("no source hook exists: all instrumentation is applied from outside the repository by the "
                   "harness (instrumented objective, class-attribute wrapper around optimization_step, lazy "
                   "executor); ./check exports PYVOLUTIONARY_VERIF=1 for uniformity only"),
        "baseline_off_cmd": BASELINE,
        "source_commits": [],
        "add_only": True,
    },
    "engines": [{
        "name": "hypothesis-pbt", "path": "harness/", "serves_properties": [],
        "kind_free_text": ("Hypothesis 6.168 (@given over JSON specs, RuleBasedStateMachine for histories) plus "
                           "sharded exhaustive enumeration of small finite domains; explicit oracles in "
                           "harness/oracles.py and checks/*.py"),
    }],
    "checks": [],
    "not_applicable": [],
    "notes": ("All checks: ./check <ID> --tier quick|thorough ; replay: ./check <ID> --replay <file>. Exit 0 held, "
              "1 VIOLATION, 2 harness error/inconclusive. Known findings: known_findings.json (never written at "
              "run time). Seeded breaking changes used for sensitivity: seeded/<id>/."),
}
for pid in ALL:
    try:
        mod = importlib.import_module(f"checks.{pid.lower()}")
    except ModuleNotFoundError:
        manifest["not_applicable"].append({"property_id": pid, "reason": "check not built yet (planned in DESIGN.md section 3)"})
        continue
    entry = getattr(mod, "MANIFEST_ENTRY", {})
    manifest["engines"][0]["serves_properties"].append(pid)
    manifest["checks"].append({
        "property_id": pid,
        "quick_cmd": f"./check {pid} --tier quick",
        "thorough_cmd": f"./check {pid} --tier thorough",
        "evidence_file": f"/verif/evidence/{pid}.json",
        "replay_cmd_template": f"./check {pid} --replay {{path}}",
        "engine": "hypothesis-pbt",
        "level_claimed": {
            "category": getattr(mod, "LEVEL", "exploration"),
            "text": entry.get("text", mod.RULE),
            "design_ref": f"DESIGN.md section 3, {pid}",
        },
        "level_note": entry.get("note", "; ".join(getattr(mod, "ASSUMPTIONS", []))),
        "technique": entry.get("technique", "property-based testing (Hypothesis) against an explicit oracle"),
    })
if not manifest["not_applicable"]:
    del manifest["not_applicable"]
with open(os.path.join(ROOT, "MANIFEST.json"), "w") as fh:
    json.dump(manifest, fh, indent=1)
print(len(manifest["checks"]), "checks registered")
