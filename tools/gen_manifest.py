#!/venv/bin/python
"""Regenerates MANIFEST.json from the check modules (each carries its own MANIFEST_ENTRY texts)."""
import importlib
import json
import os
import sys

ROOT = os.path.dirname(os.path.dirname(os.path.abspath(__file__)))
sys.path.insert(0, ROOT)
import harness  # noqa: E402,F401

ALL = [f"C{i:02d}" for i in range(1, 21)]
BASELINE = ("cd /repo && /venv/bin/python -m pytest -ra -q -p no:cacheprovider --timeout=900 "
            "--continue-on-collection-errors --junitxml=/tmp/pyvolutionary-baseline.junit.xml")


ENTRIES = {
 "C01": ("Exploration: one Hypothesis campaign per exported optimizer over generated tasks of every encoding, configurations at/above documented scale, seeds and modes; every reported agent is tested with a membership predicate written from the declarations. Right level because the claim ranges over an unbounded run space with a cheap exact oracle; no absence claim.",
         "property-based testing: generated runs + membership oracle over every reported agent"),
 "C02": ("Exploration: generated runs whose objective is harness-owned; the checker re-evaluates every reported agent's cost from the position and from transform_solution(position) and recomputes the documented fitness. An independent ground truth exists for every agent, so sampling runs is the deciding step.",
         "property-based testing: differential oracle (checker's own objective evaluation) on generated runs"),
 "C03": ("Exploration: generated runs weighted to ties, max tasks and pool modes; validity predicate on best_solution vs the last generation (any tie-break accepted).",
         "property-based testing: validity predicate on generated runs"),
 "C04": ("Exploration with an exhaustively enumerated core: a scripted optimizer drives the library's own optimize() loop through every rate history up to length 4 (quick) / 6 (thorough) over a dyadic alphabet x all small configurations and is compared with an independent reference of the stop rule (exhaustive: true for that bound); plus random histories and observational checks of real runs of all optimizers.",
         "model-based testing: scripted optimizer vs reference stop rule (exhaustive small histories + Hypothesis) and observational oracle on real runs"),
 "C05": ("Exploration: the harness' instrumented objective applies the membership predicate to every argument it receives during generated runs (raising inside worker processes), so discarded candidates are covered too.",
         "property-based testing: instrumented objective records every call on generated runs"),
 "C06": ("Exploration: strict side keys every exception out of optimize() on generated valid continuous tasks by (optimizer, type, function) and compares with the committed open findings; per-pair side tests 'works today' pairs wholesale; invalid side generates invalid calls and requires ValueError with zero cycles executed.",
         "property-based testing / robustness fuzzing with exception bucketing and a known-findings list"),
 "C07": ("Exploration: metamorphic pairs of equal seeded runs under different ambient RNG state, one in three across interpreters with another PYTHONHASHSEED; exact equality of whole results.",
         "property-based testing: metamorphic relation (same seed => identical result), cross-process"),
 "C08": ("Exploration over call histories: Hypothesis RuleBasedStateMachine (optimize / set_config_parameters rules on one instance) compared after every run with a fresh instance; failing histories shrink as one value and are their own replay file.",
         "stateful (model-based) property testing: reused instance vs fresh instance"),
 "C09": ("Exploration: deep structural snapshots of the caller's config and task before/after generated calls, including calls that raise and pool modes.",
         "property-based testing: before/after snapshot invariant"),
 "C10": ("Exploration: generated runs with 1x..3x populations plus offsets that no group count divides, all modes; size invariant over every generation.",
         "property-based testing: invariant over every recorded generation"),
 "C11": ("Exploration of schedules: every reference the library's modules hold to concurrent.futures (executor classes, as_completed, wait; found by identity) is replaced by a lazy executor whose completion order (and time-outs) are drawn by Hypothesis, with a multiset hand-off oracle; real thread/process pools with injected delays and stragglers; distinct-initial-points oracle. Interleavings of real pools are sampled, not enumerated.",
         "schedule-controlled property testing (harness-owned executor) + delay-injected real pools"),
 "C12": ("Exploration: metamorphic pairs run(max, f) / run(min, -f) with equal seeds for every optimizer outside the committed direction-reader list; positions equal and costs exact negatives generation by generation.",
         "property-based testing: metamorphic relation max f == min -f"),
 "C13": ("Exploration: algebraic laws of the seven variable types over generated definitions x adversarial candidate values (boundaries, 1 ulp outside, +-inf, huge, numpy scalars, ties).",
         "property-based testing: algebraic laws (member, fixed point, idempotence, decode consistency)"),
 "C14": ("Exploration: generated variable lists of any mix/order and positions; consistency laws between a task and stand-alone variables built from the same declarations.",
         "property-based testing: consistency laws against stand-alone variables"),
 "C15": ("Exploration: generated runs whose per-cycle population is deep-snapshotted by the harness and compared with the returned history; trend utilities compared with a direct direction-aware ranking for generated ranks and iteration lists.",
         "property-based testing: history vs independent per-cycle snapshots; reference ranking for utilities"),
 "C16": ("Exploration with an exhaustively enumerated core: every population of size <= 5 (quick) / 6 (thorough) over a 7-letter cost alphabet with ties, signed zeros and infinities x every n x both directions (exhaustive: true for that bound), plus random large populations; validity predicates.",
         "exhaustive small-domain enumeration + property-based testing with validity predicates"),
 "C17": ("Exploration: generated long runs of the optimizers classified structurally elitist (committed table), min and max; monotonicity of the best cost per generation.",
         "property-based testing: monotonicity invariant over generated runs"),
 "C18": ("Exploration: per optimizer class, generated valid and mutated parameter dictionaries; construct/refuse/equality laws and exact run equivalence between constructor-configured and set_config_parameters-configured instances, including instances that already had another configuration.",
         "property-based testing: API laws + differential run equivalence"),
 "C19": ("Exploration with an exhaustively enumerated core: ParameterGrid laws on every grid of <= 2 (quick) / 3 (thorough) sub-grids over 3 keys x 1..3 values against a reference product (exhaustive: true for that bound); HyperTuner.execute/resolve driven with a scripted optimizer and Hypothesis-drawn score tables against a call-log and mean-optimality oracle.",
         "exhaustive enumeration (ParameterGrid) + model-based testing with a scripted optimizer"),
 "C20": ("Exploration with an enumerated core: every (n, m) in 1..3 x 1..3 x every modes shape once, plus Hypothesis-drawn cases (mode values, invalid strings, trials, exports) on scripted logging optimizers; reference broadcast, call-log multiset, table shape and file layout oracles.",
         "model-based testing with scripted optimizers and a reference broadcast"),
}

manifest = {
    "version": 1,
    "setup_cmd": ("/venv/bin/python -c 'import hypothesis' 2>/dev/null || /venv/bin/pip install --no-index "
                  "--find-links /opt/veriftools/wheels hypothesis"),
    "hooks": {
        "guard": "PYVOLUTIONARY_VERIF",
        "enable": ("no source hook exists: all instrumentation is applied from outside the repository by the "
                   "harness (instrumented objective, class-attribute wrapper around optimization_step, lazy "
                   "executor); ./check exports PYVOLUTIONARY_VERIF=1 for uniformity only"),
        "baseline_off_cmd": BASELINE,
        "source_commits": [],
        "add_only": True,
    },
    "engines": [{
        "name": "hypothesis-pbt", "path": "harness/", "serves_properties": [],
        "kind_free_text": ("Hypothesis 6.168 (@given over JSON specs, RuleBasedStateMachine for histories) plus "
                           "sharded exhaustive enumeration of small finite domains; explicit oracles in "
                           "harness/oracles.py and checks/*.py"),
    }],
    "checks": [],
    "not_applicable": [],
    "notes": ("All checks: ./check <ID> --tier quick|thorough ; replay: ./check <ID> --replay <file>. Exit 0 held, "
              "1 VIOLATION, 2 harness error/inconclusive. Known findings: known_findings.json (never written at "
              "run time). Seeded breaking changes used for sensitivity: seeded/<id>/."),
}
for pid in ALL:
    try:
        mod = importlib.import_module(f"checks.{pid.lower()}")
    except ModuleNotFoundError:
        manifest["not_applicable"].append({"property_id": pid, "reason": "check not built yet (planned in DESIGN.md section 3)"})
        continue
    entry = {"text": ENTRIES[pid][0], "technique": ENTRIES[pid][1]} if pid in ENTRIES else {}
    manifest["engines"][0]["serves_properties"].append(pid)
    manifest["checks"].append({
        "property_id": pid,
        "quick_cmd": f"./check {pid} --tier quick",
        "thorough_cmd": f"./check {pid} --tier thorough",
        "evidence_file": f"/verif/evidence/{pid}.json",
        "replay_cmd_template": f"./check {pid} --replay {{path}}",
        "engine": "hypothesis-pbt",
        "level_claimed": {
            "category": getattr(mod, "LEVEL", "exploration"),
            "text": entry.get("text", mod.RULE) + " Generation rule and non-trivial rule: see the evidence file's coverage.rule.",
            "design_ref": f"DESIGN.md section 3, {pid}",
        },
        "level_note": "Trusted base: the harness' own oracles and generators (harness/, checks/), NumPy, pydantic, Hypothesis. "
                      "Assumptions: " + "; ".join(getattr(mod, "ASSUMPTIONS", [])) + ". Sampling never establishes absence.",
        "technique": entry.get("technique", "property-based testing (Hypothesis) against an explicit oracle"),
    })
# all 20 properties are claimed: the list is kept, explicitly empty, so that a reader sees nothing was set aside
with open(os.path.join(ROOT, "MANIFEST.json"), "w") as fh:
    json.dump(manifest, fh, indent=1)
print(len(manifest["checks"]), "checks registered")
