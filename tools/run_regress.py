#!/venv/bin/python
"""Run only the committed regression replays (replays/regress/) of every check against the current tree."""
import importlib
import os
import sys
import time

ROOT = os.path.dirname(os.path.dirname(os.path.abspath(__file__)))
sys.path.insert(0, ROOT)
import harness  # noqa: E402,F401
from harness import runner  # noqa: E402

bad = 0
for i in range(1, 21):
    prop = f"C{i:02d}"
    if len(sys.argv) > 1 and prop not in sys.argv[1:]:
        continue
    mod = importlib.import_module(f"checks.{prop.lower()}")
    known = runner.load_known(prop)
    files = runner.regress_files(prop)
    t0 = time.time()
    fails = []
    for f in files:
        try:
            vs = runner.run_replay_file(mod, f, known)
        except Exception as e:  # noqa: BLE001
            vs = [("ERROR", f"{type(e).__name__}: {e}")]
        if vs:
            fails.append((os.path.basename(f), vs[0]))
    print(f"{prop}: {len(files)} replays, {len(fails)} failing, {time.time() - t0:.1f}s")
    for f, v in fails:
        bad += 1
        print("   ", f, str(v)[:200])
sys.exit(1 if bad else 0)
